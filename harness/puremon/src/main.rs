//! puremon: monitors for the pure pieces (no ptrace, no FFI).
//!   puremon dr7                     exhaustive DR7 encoder check against the SDM formula (C14)
//!   puremon pathindex SEED N        random + bounded-exhaustive insert/query sequences of the path-suffix
//!                                   index against a naive list model (C17)
//! Output: one JSON object on stdout; a non-empty "violations" array means the property is refuted.

use bugstalker::debugger::register::debug::{
    BreakCondition, BreakSize, DebugControlRegister, DebugRegisterNumber,
};
use bugstalker::verif::PathSearchIndex;

fn jstr(s: &str) -> String {
    let mut o = String::from("\"");
    for c in s.chars() {
        match c {
            '"' => o.push_str("\\\""),
            '\\' => o.push_str("\\\\"),
            '\n' => o.push_str("\\n"),
            c if (c as u32) < 0x20 => o.push_str(&format!("\\u{:04x}", c as u32)),
            c => o.push(c),
        }
    }
    o.push('"');
    o
}

// ------------------------------------------------------------------------------------------------ DR7

fn dr7() {
    let regs = [
        DebugRegisterNumber::DR0,
        DebugRegisterNumber::DR1,
        DebugRegisterNumber::DR2,
        DebugRegisterNumber::DR3,
    ];
    let conds = [
        (BreakCondition::DataWrites, 0b01usize),
        (BreakCondition::DataReadsWrites, 0b11usize),
    ];
    // SDM: LEN 00 = 1 byte, 01 = 2 bytes, 11 = 4 bytes, 10 = 8 bytes
    let sizes = [
        (BreakSize::Bytes1, 0b00usize),
        (BreakSize::Bytes2, 0b01usize),
        (BreakSize::Bytes4, 0b11usize),
        (BreakSize::Bytes8, 0b10usize),
    ];
    let mut evals: u64 = 0;
    let mut states: u64 = 0;
    let mut violations: Vec<String> = vec![];
    // prior state: every slot either disabled or locally enabled, with any 4-bit RW/LEN field (stale or live)
    for prior_idx in 0..(32usize.pow(4)) {
        let mut prior: usize = 0;
        let mut x = prior_idx;
        let mut any_enabled = false;
        for slot in 0..4 {
            let f = x % 32;
            x /= 32;
            let enabled = f & 1;
            let field = f >> 1;
            prior |= enabled << (2 * slot);
            prior |= field << (16 + 4 * slot);
            any_enabled |= enabled == 1;
        }
        if any_enabled {
            prior |= 1 << 8;
        }
        states += 1;
        for (si, slot) in regs.iter().enumerate() {
            for (c, cbits) in conds.iter() {
                for (s, sbits) in sizes.iter() {
                    // enable
                    let mut r = DebugControlRegister::from_raw(prior);
                    r.configure_bp(*slot, *c, *s);
                    r.set_dr(*slot, false, true);
                    let mut exp = prior & !(0xF << (16 + 4 * si));
                    exp |= cbits << (16 + 4 * si);
                    exp |= sbits << (18 + 4 * si);
                    exp |= 1 << (2 * si);
                    exp |= 1 << 8;
                    evals += 1;
                    if r.raw() != exp && violations.len() < 8 {
                        violations.push(format!(
                            "{{\"op\":\"enable\",\"prior\":{prior},\"slot\":{si},\"cond\":{cbits},\"len\":{sbits},\"got\":{},\"expected\":{exp}}}",
                            r.raw()
                        ));
                    }
                    if !r.dr_enabled(*slot, false) && violations.len() < 8 {
                        violations.push(format!("{{\"op\":\"dr_enabled-after-enable\",\"prior\":{prior},\"slot\":{si}}}"));
                    }
                    // disable again: enable bit cleared, nothing else of other slots changes
                    let after_enable = r.raw();
                    r.set_dr(*slot, false, false);
                    let mut exp2 = after_enable & !(1 << (2 * si));
                    if exp2 & 0b01010101 == 0 {
                        exp2 &= !(1 << 8);
                    }
                    evals += 1;
                    if r.raw() != exp2 && violations.len() < 8 {
                        violations.push(format!(
                            "{{\"op\":\"disable\",\"prior\":{after_enable},\"slot\":{si},\"got\":{},\"expected\":{exp2}}}",
                            r.raw()
                        ));
                    }
                }
            }
        }
    }
    println!(
        "{{\"leg\":\"dr7\",\"prior_states\":{states},\"evaluations\":{evals},\"violations\":[{}]}}",
        violations.join(",")
    );
}

// ------------------------------------------------------------------------------------------------ path index

struct Rng(u64);
impl Rng {
    fn next(&mut self) -> u64 {
        self.0 = self.0.wrapping_add(0x9E3779B97F4A7C15);
        let mut x = self.0;
        x = (x ^ (x >> 30)).wrapping_mul(0xBF58476D1CE4E5B9);
        x = (x ^ (x >> 27)).wrapping_mul(0x94D049BB133111EB);
        x ^ (x >> 31)
    }
    fn below(&mut self, n: usize) -> usize {
        (self.next() % n as u64) as usize
    }
}

/// naive model: the list of (components, value); a needle matches iff its components equal the trailing components
fn model_get(model: &[(Vec<String>, u32)], needle: &[String]) -> Vec<u32> {
    let mut out: Vec<u32> = model
        .iter()
        .filter(|(p, _)| p.len() >= needle.len() && p[p.len() - needle.len()..] == *needle)
        .map(|(_, v)| *v)
        .collect();
    out.sort();
    out
}

fn check_queries(
    idx: &PathSearchIndex<u32>,
    model: &[(Vec<String>, u32)],
    delim: &str,
    needles: &[Vec<String>],
    violations: &mut Vec<String>,
    evals: &mut u64,
    nonempty: &mut u64,
) {
    for needle in needles {
        let text = needle.join(delim);
        let mut got: Vec<u32> = idx.get(&text).into_iter().copied().collect();
        got.sort();
        let exp = model_get(model, needle);
        *evals += 1;
        if !exp.is_empty() {
            *nonempty += 1;
        }
        if got != exp && violations.len() < 8 {
            violations.push(format!(
                "{{\"needle\":{},\"got\":{:?},\"expected\":{:?},\"paths\":[{}]}}",
                jstr(&text),
                got,
                exp,
                model
                    .iter()
                    .take(24)
                    .map(|(p, v)| format!("[{},{}]", jstr(&p.join(delim)), v))
                    .collect::<Vec<_>>()
                    .join(",")
            ));
        }
    }
}

fn pathindex(seed: u64, n_seq: usize) {
    let mut rng = Rng(seed);
    let mut violations = vec![];
    let mut evals = 0u64;
    let mut nonempty = 0u64;
    let mut inserts = 0u64;
    // near-miss alphabet: components that are prefixes/suffixes/extensions of each other
    let comps = ["a", "b", "ab", "xb", "bx", "f", "ff", "xf", "a_b", "file.rs", "xfile.rs", "dir", "xdir", "dirx", "m", ""];
    // ---- random sequences
    for _ in 0..n_seq {
        let delim = if rng.below(2) == 0 { "::" } else { "/" };
        let mut idx: PathSearchIndex<u32> = PathSearchIndex::new(delim);
        let mut model: Vec<(Vec<String>, u32)> = vec![];
        let n = 1 + rng.below(24);
        for v in 0..n {
            let len = 1 + rng.below(4);
            let mut p: Vec<String> = (0..len).map(|_| comps[rng.below(comps.len() - 1)].to_string()).collect();
            // duplicates of an earlier path are frequent on purpose (monomorphizations share a path)
            if !model.is_empty() && rng.below(4) == 0 {
                p = model[rng.below(model.len())].0.clone();
            }
            if rng.below(2) == 0 {
                idx.insert(p.iter(), v as u32);
            } else {
                idx.insert_w_head(p[..p.len() - 1].iter(), &p[p.len() - 1], v as u32);
            }
            inserts += 1;
            model.push((p, v as u32));
        }
        // needles: every suffix of every path, and mutations of them
        let mut needles: Vec<Vec<String>> = vec![];
        for (p, _) in &model {
            for k in 1..=p.len() {
                let suf = p[p.len() - k..].to_vec();
                needles.push(suf.clone());
                let mut m = suf.clone();
                let j = rng.below(m.len());
                m[j] = comps[rng.below(comps.len() - 1)].to_string();
                needles.push(m);
                let mut m2 = suf.clone();
                m2.insert(0, comps[rng.below(comps.len() - 1)].to_string());
                needles.push(m2);
            }
        }
        needles.retain(|n| n.iter().all(|c| !c.is_empty()));
        check_queries(&idx, &model, delim, &needles, &mut violations, &mut evals, &mut nonempty);
    }
    // ---- bounded exhaustive: all multisets of up to 3 paths over {a,b,ab} with length <= 2, all needles of length <= 3
    let small = ["a", "b", "ab"];
    let mut all_paths: Vec<Vec<String>> = vec![];
    for x in small {
        all_paths.push(vec![x.to_string()]);
        for y in small {
            all_paths.push(vec![x.to_string(), y.to_string()]);
        }
    }
    let mut all_needles: Vec<Vec<String>> = all_paths.clone();
    for x in small {
        for y in small {
            for z in small {
                all_needles.push(vec![x.to_string(), y.to_string(), z.to_string()]);
            }
        }
    }
    let np = all_paths.len();
    let mut exhaustive_sets = 0u64;
    for i in 0..np {
        for j in 0..np {
            for k in 0..np {
                let mut idx: PathSearchIndex<u32> = PathSearchIndex::new("::");
                let mut model = vec![];
                for (v, pi) in [i, j, k].iter().enumerate() {
                    let p = &all_paths[*pi];
                    idx.insert(p.iter(), v as u32);
                    model.push((p.clone(), v as u32));
                    inserts += 1;
                }
                exhaustive_sets += 1;
                check_queries(&idx, &model, "::", &all_needles, &mut violations, &mut evals, &mut nonempty);
            }
        }
    }
    println!(
        "{{\"leg\":\"pathindex\",\"sequences\":{n_seq},\"exhaustive_sets\":{exhaustive_sets},\"inserts\":{inserts},\"queries\":{evals},\"queries_with_matches\":{nonempty},\"violations\":[{}]}}",
        violations.join(",")
    );
}

fn main() {
    let args: Vec<String> = std::env::args().collect();
    match args.get(1).map(|s| s.as_str()) {
        Some("dr7") => dr7(),
        Some("pathindex") => {
            let seed = args.get(2).and_then(|s| s.parse().ok()).unwrap_or(1);
            let n = args.get(3).and_then(|s| s.parse().ok()).unwrap_or(200);
            pathindex(seed, n)
        }
        _ => {
            eprintln!("usage: puremon dr7 | pathindex SEED N");
            std::process::exit(2)
        }
    }
}
