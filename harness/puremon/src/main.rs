fn main(){}
