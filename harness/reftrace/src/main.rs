//! Independent reference tracer. Uses only raw ptrace through `libc`/`nix`; no BugStalker code.
//!
//! reftrace trace --out PREFIX [--tick-addr HEX] [--max-steps N] [--stdout F] [--stderr F] -- prog args..
//!   Runs `prog` (ADDR_NO_RANDOMIZE) to its ELF entry point, then single-steps the main thread to
//!   exit. Writes
//!     PREFIX.steps  : records of (pc u64, rsp u64, tick u32, depth u32), little endian
//!     PREFIX.calls  : records of (start u64, end u64, site u64, target u64, ret u64, slot u64)
//!     PREFIX.meta   : one JSON object
//! reftrace inspect PID ELF...   post-mortem inspection of a released process (C11)
//! reftrace hwprobe              does a hardware data breakpoint fire in this machine? (C14)

use std::ffi::CString;
use std::fs::File;
use std::io::{BufWriter, Read, Write};
use std::os::fd::AsRawFd;

fn die(msg: &str) -> ! {
    eprintln!("reftrace: {msg}");
    std::process::exit(2);
}

fn waitpid_raw(pid: i32, flags: i32) -> (i32, i32) {
    let mut status = 0i32;
    let r = unsafe { libc::waitpid(pid, &mut status, flags) };
    (r, status)
}

fn ptrace(req: libc::c_uint, pid: i32, addr: usize, data: usize) -> i64 {
    unsafe { libc::ptrace(req, pid, addr, data) }
}

fn getregs(pid: i32) -> libc::user_regs_struct {
    let mut regs: libc::user_regs_struct = unsafe { std::mem::zeroed() };
    let r = ptrace(libc::PTRACE_GETREGS, pid, 0, &mut regs as *mut _ as usize);
    if r < 0 {
        die(&format!("GETREGS failed: {}", std::io::Error::last_os_error()));
    }
    regs
}

fn setregs(pid: i32, regs: &libc::user_regs_struct) {
    let r = ptrace(libc::PTRACE_SETREGS, pid, 0, regs as *const _ as usize);
    if r < 0 {
        die("SETREGS failed");
    }
}

fn peek(pid: i32, addr: u64) -> Option<u64> {
    unsafe { *libc::__errno_location() = 0 };
    let r = ptrace(libc::PTRACE_PEEKDATA, pid, addr as usize, 0);
    if r == -1 && unsafe { *libc::__errno_location() } != 0 {
        return None;
    }
    Some(r as u64)
}

fn poke(pid: i32, addr: u64, val: u64) {
    let r = ptrace(libc::PTRACE_POKEDATA, pid, addr as usize, val as usize);
    if r < 0 {
        die("POKEDATA failed");
    }
}

fn read_auxv_entry(pid: i32) -> Option<u64> {
    let mut f = File::open(format!("/proc/{pid}/auxv")).ok()?;
    let mut buf = Vec::new();
    f.read_to_end(&mut buf).ok()?;
    for ch in buf.chunks_exact(16) {
        let k = u64::from_le_bytes(ch[0..8].try_into().unwrap());
        let v = u64::from_le_bytes(ch[8..16].try_into().unwrap());
        if k == 9 {
            return Some(v); // AT_ENTRY
        }
    }
    None
}

struct CallRec {
    start: u64,
    site: u64,
    target: u64,
    ret: u64,
    slot: u64,
}

fn json_escape(s: &str) -> String {
    let mut o = String::new();
    for c in s.chars() {
        match c {
            '"' => o.push_str("\\\""),
            '\\' => o.push_str("\\\\"),
            '\n' => o.push_str("\\n"),
            c if (c as u32) < 0x20 => o.push_str(&format!("\\u{:04x}", c as u32)),
            c => o.push(c),
        }
    }
    o
}

fn cmd_trace(args: &[String]) {
    let mut out = None;
    let mut tick_addr: Option<u64> = None;
    let mut max_steps: u64 = 5_000_000;
    let mut so: Option<String> = None;
    let mut se: Option<String> = None;
    let mut i = 0;
    let mut prog: Vec<String> = vec![];
    while i < args.len() {
        match args[i].as_str() {
            "--out" => {
                out = Some(args[i + 1].clone());
                i += 2
            }
            "--tick-addr" => {
                tick_addr = Some(
                    u64::from_str_radix(args[i + 1].trim_start_matches("0x"), 16)
                        .unwrap_or_else(|_| die("bad tick addr")),
                );
                i += 2
            }
            "--max-steps" => {
                max_steps = args[i + 1].parse().unwrap_or_else(|_| die("bad max"));
                i += 2
            }
            "--stdout" => {
                so = Some(args[i + 1].clone());
                i += 2
            }
            "--stderr" => {
                se = Some(args[i + 1].clone());
                i += 2
            }
            "--" => {
                prog = args[i + 1..].to_vec();
                break;
            }
            x => die(&format!("unknown arg {x}")),
        }
    }
    let out = out.unwrap_or_else(|| die("--out required"));
    if prog.is_empty() {
        die("no program");
    }

    let so_f = so.as_ref().map(|p| File::create(p).unwrap());
    let se_f = se.as_ref().map(|p| File::create(p).unwrap());

    let cprog = CString::new(prog[0].clone()).unwrap();
    let cargs: Vec<CString> = prog.iter().map(|a| CString::new(a.clone()).unwrap()).collect();
    let mut argv: Vec<*const libc::c_char> = cargs.iter().map(|a| a.as_ptr()).collect();
    argv.push(std::ptr::null());

    let pid = unsafe { libc::fork() };
    if pid < 0 {
        die("fork");
    }
    if pid == 0 {
        unsafe {
            if let Some(f) = &so_f {
                libc::dup2(f.as_raw_fd(), 1);
            }
            if let Some(f) = &se_f {
                libc::dup2(f.as_raw_fd(), 2);
            }
            libc::personality(0x0040000); // ADDR_NO_RANDOMIZE
            libc::ptrace(libc::PTRACE_TRACEME, 0, 0, 0);
            libc::execv(cprog.as_ptr(), argv.as_ptr());
            libc::_exit(127);
        }
    }
    drop(so_f);
    drop(se_f);

    let (_, st) = waitpid_raw(pid, 0);
    if !libc::WIFSTOPPED(st) {
        die("child did not stop at exec");
    }
    ptrace(
        libc::PTRACE_SETOPTIONS,
        pid,
        0,
        (libc::PTRACE_O_EXITKILL | libc::PTRACE_O_TRACECLONE) as usize,
    );
    let entry = read_auxv_entry(pid).unwrap_or_else(|| die("no AT_ENTRY"));
    // run to entry
    let orig = peek(pid, entry).unwrap_or_else(|| die("peek entry"));
    poke(pid, entry, (orig & !0xff) | 0xcc);
    ptrace(libc::PTRACE_CONT, pid, 0, 0);
    let (_, st) = waitpid_raw(pid, 0);
    if !(libc::WIFSTOPPED(st) && libc::WSTOPSIG(st) == libc::SIGTRAP) {
        die(&format!("unexpected status before entry: {st:#x}"));
    }
    poke(pid, entry, orig);
    let mut regs = getregs(pid);
    regs.rip = entry;
    setregs(pid, &regs);

    let mut steps = BufWriter::new(File::create(format!("{out}.steps")).unwrap());
    let mut calls_f = BufWriter::new(File::create(format!("{out}.calls")).unwrap());

    let entry_rsp = regs.rsp;
    let mut shadow: Vec<CallRec> = Vec::new();
    let mut n: u64 = 0;
    let mut prev_pc = 0u64;
    let mut prev_rsp = 0u64;
    let mut have_prev = false;
    let mut tick: u64 = 0;
    let mut pending_sig: i32 = 0;
    let mut signals: Vec<(u64, i32)> = vec![];
    let mut exit_kind = "unknown";
    let mut exit_code: i32 = -1;
    let mut truncated = false;
    let mut ncalls: u64 = 0;
    let mut multi_thread = false;

    let write_call = |f: &mut BufWriter<File>, c: &CallRec, end: u64| {
        for v in [c.start, end, c.site, c.target, c.ret, c.slot] {
            f.write_all(&v.to_le_bytes()).unwrap();
        }
    };

    loop {
        let pc = regs.rip;
        let rsp = regs.rsp;
        if !(have_prev && pc == prev_pc && rsp == prev_rsp) {
            // classify the transition prev -> current
            if have_prev {
                // pops: entries whose return slot is now below rsp
                while let Some(top) = shadow.last() {
                    if rsp > top.slot {
                        let c = shadow.pop().unwrap();
                        write_call(&mut calls_f, &c, n);
                    } else {
                        break;
                    }
                }
                if rsp == prev_rsp.wrapping_sub(8) {
                    if let Some(w) = peek(pid, rsp) {
                        if w > prev_pc && w <= prev_pc + 15 && pc != w {
                            shadow.push(CallRec {
                                start: n,
                                site: prev_pc,
                                target: pc,
                                ret: w,
                                slot: rsp,
                            });
                            ncalls += 1;
                        }
                    }
                }
            }
            if let Some(ta) = tick_addr {
                if let Some(t) = peek(pid, ta) {
                    tick = t;
                }
            }
            steps.write_all(&pc.to_le_bytes()).unwrap();
            steps.write_all(&rsp.to_le_bytes()).unwrap();
            steps.write_all(&(tick as u32).to_le_bytes()).unwrap();
            steps.write_all(&(shadow.len() as u32).to_le_bytes()).unwrap();
            n += 1;
            prev_pc = pc;
            prev_rsp = rsp;
            have_prev = true;
            if n >= max_steps {
                truncated = true;
                unsafe { libc::kill(pid, libc::SIGKILL) };
                waitpid_raw(pid, 0);
                exit_kind = "truncated";
                break;
            }
        }
        let r = ptrace(libc::PTRACE_SINGLESTEP, pid, 0, pending_sig as usize);
        pending_sig = 0;
        if r < 0 {
            exit_kind = "step_error";
            break;
        }
        let (_, st) = waitpid_raw(pid, libc::__WALL);
        if libc::WIFEXITED(st) {
            exit_kind = "exited";
            exit_code = libc::WEXITSTATUS(st);
            break;
        }
        if libc::WIFSIGNALED(st) {
            exit_kind = "signaled";
            exit_code = libc::WTERMSIG(st);
            break;
        }
        if libc::WIFSTOPPED(st) {
            let sig = libc::WSTOPSIG(st);
            let event = (st >> 16) & 0xff;
            if event == libc::PTRACE_EVENT_CLONE {
                multi_thread = true;
                unsafe { libc::kill(pid, libc::SIGKILL) };
                waitpid_raw(pid, libc::__WALL);
                exit_kind = "multithreaded";
                break;
            }
            if sig != libc::SIGTRAP {
                signals.push((n, sig));
                pending_sig = sig;
            }
        }
        regs = getregs(pid);
    }
    // flush still-open calls
    while let Some(c) = shadow.pop() {
        write_call(&mut calls_f, &c, n);
    }
    steps.flush().unwrap();
    calls_f.flush().unwrap();

    let sigs = signals
        .iter()
        .map(|(i, s)| format!("[{i},{s}]"))
        .collect::<Vec<_>>()
        .join(",");
    let meta = format!(
        "{{\"prog\":\"{}\",\"entry\":{},\"entry_rsp\":{},\"steps\":{},\"calls\":{},\"exit_kind\":\"{}\",\"exit_code\":{},\"truncated\":{},\"multi_thread\":{},\"signals\":[{}],\"tick_addr\":{}}}\n",
        json_escape(&prog[0]),
        entry,
        entry_rsp,
        n,
        ncalls,
        exit_kind,
        exit_code,
        truncated,
        multi_thread,
        sigs,
        tick_addr.unwrap_or(0)
    );
    std::fs::write(format!("{out}.meta"), meta).unwrap();
}

/// Seize a process that nobody traces any more, read DR0-7 of each thread, report state.
/// Output: one JSON object on stdout.
fn cmd_inspect(args: &[String]) {
    let pid: i32 = args
        .first()
        .and_then(|s| s.parse().ok())
        .unwrap_or_else(|| die("inspect PID"));
    let status = std::fs::read_to_string(format!("/proc/{pid}/status")).unwrap_or_default();
    if status.is_empty() {
        println!("{{\"alive\":false}}");
        return;
    }
    let field = |name: &str| -> String {
        status
            .lines()
            .find(|l| l.starts_with(name))
            .map(|l| l[name.len()..].trim().to_string())
            .unwrap_or_default()
    };
    let state = field("State:");
    let tracer = field("TracerPid:");
    let mut tids: Vec<i32> = vec![];
    if let Ok(rd) = std::fs::read_dir(format!("/proc/{pid}/task")) {
        for e in rd.flatten() {
            if let Ok(t) = e.file_name().to_string_lossy().parse::<i32>() {
                tids.push(t);
            }
        }
    }
    tids.sort();
    let mut thr = vec![];
    let tracer_is_zero = tracer == "0";
    for &t in &tids {
        let mut dr = vec![];
        let mut seized = false;
        if tracer_is_zero {
            let r = ptrace(libc::PTRACE_SEIZE, t, 0, 0);
            if r == 0 {
                seized = true;
                ptrace(libc::PTRACE_INTERRUPT, t, 0, 0);
                let (_, _st) = waitpid_raw(t, libc::__WALL);
                let off = std::mem::offset_of!(libc::user, u_debugreg);
                for i in 0..8usize {
                    unsafe { *libc::__errno_location() = 0 };
                    let v = ptrace(libc::PTRACE_PEEKUSER, t, off + i * 8, 0);
                    dr.push(v as u64);
                }
                let regs = getregs(t);
                dr.push(regs.rip);
                ptrace(libc::PTRACE_DETACH, t, 0, 0);
            }
        }
        let st = std::fs::read_to_string(format!("/proc/{pid}/task/{t}/stat")).unwrap_or_default();
        let sc = st
            .rfind(')')
            .and_then(|p| st[p + 1..].trim().chars().next())
            .unwrap_or('?');
        thr.push(format!(
            "{{\"tid\":{t},\"state\":\"{sc}\",\"seized\":{seized},\"dr\":[{}]}}",
            dr.iter().map(|v| v.to_string()).collect::<Vec<_>>().join(",")
        ));
    }
    println!(
        "{{\"alive\":true,\"state\":\"{}\",\"tracer\":\"{}\",\"threads\":[{}]}}",
        json_escape(&state),
        json_escape(&tracer),
        thr.join(",")
    );
}

/// Does a hardware write watchpoint set through ptrace fire in this machine?
fn cmd_hwprobe() {
    static mut TARGET: u64 = 0;
    let pid = unsafe { libc::fork() };
    if pid == 0 {
        unsafe {
            libc::ptrace(libc::PTRACE_TRACEME, 0, 0, 0);
            libc::raise(libc::SIGSTOP);
            for i in 0..1000u64 {
                std::ptr::write_volatile(&raw mut TARGET, i);
            }
            libc::_exit(0);
        }
    }
    let (_, st) = waitpid_raw(pid, 0);
    if !libc::WIFSTOPPED(st) {
        println!("{{\"hw_watch_fires\":false,\"why\":\"no stop\"}}");
        return;
    }
    let off = std::mem::offset_of!(libc::user, u_debugreg);
    let addr = &raw const TARGET as usize;
    let r0 = ptrace(libc::PTRACE_POKEUSER, pid, off, addr);
    // DR7: L0 | RW0=01 (write) | LEN0=10 (8 bytes)
    let dr7: usize = 1 | (0b01 << 16) | (0b10 << 18);
    let r7 = ptrace(libc::PTRACE_POKEUSER, pid, off + 7 * 8, dr7);
    ptrace(libc::PTRACE_CONT, pid, 0, 0);
    let (_, st) = waitpid_raw(pid, 0);
    let mut fired = false;
    if libc::WIFSTOPPED(st) && libc::WSTOPSIG(st) == libc::SIGTRAP {
        let mut si: libc::siginfo_t = unsafe { std::mem::zeroed() };
        ptrace(libc::PTRACE_GETSIGINFO, pid, 0, &mut si as *mut _ as usize);
        fired = si.si_code == 4; // TRAP_HWBKPT
    }
    unsafe { libc::kill(pid, libc::SIGKILL) };
    waitpid_raw(pid, 0);
    println!(
        "{{\"hw_watch_fires\":{fired},\"poke_dr0\":{r0},\"poke_dr7\":{r7},\"status\":{st}}}"
    );
}

fn main() {
    let args: Vec<String> = std::env::args().collect();
    if args.len() < 2 {
        die("usage: reftrace trace|inspect|hwprobe ...");
    }
    match args[1].as_str() {
        "trace" => cmd_trace(&args[2..]),
        "inspect" => cmd_inspect(&args[2..]),
        "hwprobe" => cmd_hwprobe(),
        _ => die("unknown subcommand"),
    }
}
