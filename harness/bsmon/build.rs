fn main() {
    // same as /repo/build.rs: libthread_db resolves ps_* callbacks from the executable
    println!("cargo:rustc-link-arg=-Wl,--export-dynamic");
}
