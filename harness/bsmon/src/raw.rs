//! Observations made without asking the debugger: raw ptrace reads (the worker *is* the tracer),
//! /proc task states, and the text-integrity diff of executable file mappings against the files.

use bugstalker::debugger::WatchpointView;
use bugstalker::debugger::unwind::FrameSpan;
use serde_json::{Value, json};
use std::collections::HashMap;
use std::os::unix::fs::FileExt;

pub fn hex(b: &[u8]) -> String {
    let mut s = String::with_capacity(b.len() * 2);
    for x in b {
        s.push_str(&format!("{x:02x}"));
    }
    s
}

pub fn unhex(s: &str) -> Option<Vec<u8>> {
    if s.len() % 2 != 0 {
        return None;
    }
    (0..s.len())
        .step_by(2)
        .map(|i| u8::from_str_radix(&s[i..i + 2], 16).ok())
        .collect()
}

pub fn wp_view_json(v: &WatchpointView) -> Value {
    json!({
        "num": v.number,
        "addr": v.address.as_u64(),
        "cond": v.condition.to_string(),
        "size": v.size.to_string(),
        "dqe": v.source_dqe.as_ref().map(|s| s.to_string()),
    })
}

pub fn bt_json(bt: &[FrameSpan]) -> Value {
    Value::Array(
        bt.iter()
            .map(|f| {
                json!({
                    "ip": f.ip.as_u64(),
                    "func": f.func_name,
                    "fn_start": f.fn_start_ip.map(|a| a.as_u64()),
                    "line": f.place.as_ref().map(|p| p.line_number),
                    "file": f.place.as_ref().map(|p| p.file.to_string_lossy().to_string()),
                })
            })
            .collect(),
    )
}

pub fn task_ids(pid: i32) -> Vec<i32> {
    let mut v = vec![];
    if let Ok(rd) = std::fs::read_dir(format!("/proc/{pid}/task")) {
        for e in rd.flatten() {
            if let Ok(t) = e.file_name().to_string_lossy().parse::<i32>() {
                v.push(t);
            }
        }
    }
    v.sort();
    v
}

pub fn task_state(pid: i32, tid: i32) -> char {
    // A task that has passed PTRACE_EVENT_EXIT runs only kernel exit code (PF_EXITING): it is
    // reported as 'E' (dying), never as a running thread.
    let st = std::fs::read_to_string(format!("/proc/{pid}/task/{tid}/stat")).unwrap_or_default();
    let Some(p) = st.rfind(')') else {
        return '?';
    };
    let rest: Vec<&str> = st[p + 1..].split_whitespace().collect();
    let state = rest.first().and_then(|s| s.chars().next()).unwrap_or('?');
    // fields after the command: state(0) ppid(1) pgrp(2) session(3) tty(4) tpgid(5) flags(6)
    let flags = rest.get(6).and_then(|f| f.parse::<u64>().ok()).unwrap_or(0);
    const PF_EXITING: u64 = 0x4;
    if flags & PF_EXITING != 0 && state != 'Z' && state != 'X' {
        return 'E';
    }
    state
}

/// State of a task for the all-stop monitor. A task that is neither in tracing stop nor dead may be
/// a thread that has passed PTRACE_EVENT_EXIT and is running the kernel's exit path (it can no longer
/// execute user code, but is still listed as R until the scheduler lets it finish). Such a task
/// disappears or becomes a zombie by itself; a thread that is really alive does not. So a task
/// seen outside tracing stop is polled for up to `patience_ms` and reported dead ('X') if it goes
/// away, else with its last live state.
pub fn task_state_settled(pid: i32, tid: i32, patience_ms: u64) -> (char, u64) {
    let t0 = std::time::Instant::now();
    loop {
        let s = task_state(pid, tid);
        let s = if s == '?' { 'X' } else { s };
        if matches!(s, 't' | 'Z' | 'X' | 'E') {
            return (s, t0.elapsed().as_millis() as u64);
        }
        if t0.elapsed().as_millis() as u64 >= patience_ms {
            return (s, patience_ms);
        }
        std::thread::sleep(std::time::Duration::from_micros(500));
    }
}

/// Is `sig` pending for the target (thread-directed: the thread's private set; process-directed: the
/// shared set)? None if the status file cannot be read (target gone).
pub fn sig_pending(pid: i32, tid: Option<i32>, sig: i32) -> Option<bool> {
    let (path, key) = match tid {
        Some(t) => (format!("/proc/{pid}/task/{t}/status"), "SigPnd:"),
        None => (format!("/proc/{pid}/status"), "ShdPnd:"),
    };
    let st = std::fs::read_to_string(path).ok()?;
    for l in st.lines() {
        if let Some(rest) = l.strip_prefix(key) {
            let mask = u64::from_str_radix(rest.trim(), 16).ok()?;
            return Some(mask & (1u64 << (sig - 1)) != 0);
        }
    }
    None
}

pub fn regs_json(tid: i32) -> Value {
    let mut regs: libc::user_regs_struct = unsafe { std::mem::zeroed() };
    let r = unsafe {
        libc::ptrace(
            libc::PTRACE_GETREGS,
            tid,
            0usize,
            &mut regs as *mut _ as usize,
        )
    };
    if r < 0 {
        return Value::Null;
    }
    let mut fp: libc::user_fpregs_struct = unsafe { std::mem::zeroed() };
    let rf = unsafe {
        libc::ptrace(
            libc::PTRACE_GETFPREGS,
            tid,
            0usize,
            &mut fp as *mut _ as usize,
        )
    };
    let fphash = if rf < 0 {
        Value::Null
    } else {
        let bytes = unsafe {
            std::slice::from_raw_parts(
                &fp as *const _ as *const u8,
                std::mem::size_of::<libc::user_fpregs_struct>(),
            )
        };
        // FNV-1a over the whole FXSAVE area
        let mut h: u64 = 0xcbf29ce484222325;
        for b in bytes {
            h ^= *b as u64;
            h = h.wrapping_mul(0x100000001b3);
        }
        json!(h.to_string())
    };
    json!({
        "rip": regs.rip, "rsp": regs.rsp, "rbp": regs.rbp, "rax": regs.rax, "rbx": regs.rbx,
        "rcx": regs.rcx, "rdx": regs.rdx, "rsi": regs.rsi, "rdi": regs.rdi,
        "r8": regs.r8, "r9": regs.r9, "r10": regs.r10, "r11": regs.r11, "r12": regs.r12,
        "r13": regs.r13, "r14": regs.r14, "r15": regs.r15, "eflags": regs.eflags,
        "orig_rax": regs.orig_rax, "cs": regs.cs, "ss": regs.ss, "ds": regs.ds, "es": regs.es,
        "fs": regs.fs, "gs": regs.gs, "fs_base": regs.fs_base, "gs_base": regs.gs_base,
        "fp_hash": fphash,
    })
}

pub fn rip_of(tid: i32) -> Option<u64> {
    let mut regs: libc::user_regs_struct = unsafe { std::mem::zeroed() };
    let r = unsafe {
        libc::ptrace(
            libc::PTRACE_GETREGS,
            tid,
            0usize,
            &mut regs as *mut _ as usize,
        )
    };
    if r < 0 { None } else { Some(regs.rip) }
}

pub fn debug_regs(tid: i32) -> Option<Vec<u64>> {
    let off = std::mem::offset_of!(libc::user, u_debugreg);
    let mut v = vec![];
    for i in 0..8usize {
        unsafe { *libc::__errno_location() = 0 };
        let r = unsafe { libc::ptrace(libc::PTRACE_PEEKUSER, tid, off + i * 8, 0usize) };
        if r == -1 && unsafe { *libc::__errno_location() } != 0 {
            return None;
        }
        v.push(r as u64);
    }
    Some(v)
}

pub fn read_proc_mem(pid: i32, addr: u64, n: usize) -> Option<Vec<u8>> {
    let f = std::fs::File::open(format!("/proc/{pid}/mem")).ok()?;
    let mut buf = vec![0u8; n];
    let mut done = 0;
    while done < n {
        match f.read_at(&mut buf[done..], addr + done as u64) {
            Ok(0) => return None,
            Ok(k) => done += k,
            Err(_) => return None,
        }
    }
    Some(buf)
}

pub fn write_proc_mem(pid: i32, addr: u64, data: &[u8]) -> bool {
    let Ok(f) = std::fs::OpenOptions::new()
        .write(true)
        .open(format!("/proc/{pid}/mem"))
    else {
        return false;
    };
    f.write_all_at(data, addr).is_ok()
}

#[derive(Default)]
pub struct FileCache {
    files: HashMap<String, Option<Vec<u8>>>,
}

impl FileCache {
    fn get(&mut self, path: &str) -> Option<&Vec<u8>> {
        self.files
            .entry(path.to_string())
            .or_insert_with(|| std::fs::read(path).ok())
            .as_ref()
    }
}

/// Compare every file-backed executable mapping with its file. Returns
/// {"diff": [[addr, mem_byte, file_byte, path, file_off]...], "bytes": compared, "maps": n}
pub fn text_diff(pid: i32, cache: &mut FileCache) -> Value {
    let maps = std::fs::read_to_string(format!("/proc/{pid}/maps")).unwrap_or_default();
    let mut diffs = vec![];
    let mut total: u64 = 0;
    let mut nmaps = 0;
    for line in maps.lines() {
        let parts: Vec<&str> = line.split_whitespace().collect();
        if parts.len() < 6 {
            continue;
        }
        let perms = parts[1];
        let path = parts[5];
        if !perms.contains('x') || !path.starts_with('/') {
            continue;
        }
        let Some((s, e)) = parts[0].split_once('-') else {
            continue;
        };
        let (Ok(start), Ok(end), Ok(off)) = (
            u64::from_str_radix(s, 16),
            u64::from_str_radix(e, 16),
            u64::from_str_radix(parts[2], 16),
        ) else {
            continue;
        };
        let Some(file) = cache.get(path) else {
            continue;
        };
        let flen = file.len() as u64;
        if off >= flen {
            continue;
        }
        let n = std::cmp::min(end - start, flen - off) as usize;
        let file_slice = file[off as usize..off as usize + n].to_vec();
        let Some(mem) = read_proc_mem(pid, start, n) else {
            diffs.push(json!([start, -1, -1, path, off]));
            continue;
        };
        nmaps += 1;
        total += n as u64;
        if mem != file_slice {
            for i in 0..n {
                if mem[i] != file_slice[i] {
                    diffs.push(json!([start + i as u64, mem[i], file_slice[i], path, off + i as u64]));
                    if diffs.len() > 256 {
                        break;
                    }
                }
            }
        }
    }
    json!({"diff": diffs, "bytes": total, "maps": nmaps})
}
