//! Lowering of BugStalker's public `Value` tree and `Dqe` AST to canonical JSON.
//! No rendering code of the debugger is involved: the comparison with the ground truth happens
//! on structure, not on text.

use bugstalker::debugger::variable::dqe::{Dqe, Literal, LiteralOrWildcard, Selector};
use bugstalker::debugger::variable::value::{
    PointerValue, SpecializedValue, StructValue, SupportedScalar, Value as V,
};
use serde_json::{Value, json};

macro_rules! tyj {
    ($t:expr) => {
        json!({"name": $t.name(), "ns": $t.namespace().as_parts()})
    };
}

fn scalar(s: &SupportedScalar) -> Value {
    match s {
        SupportedScalar::I8(v) => json!({"t": "i8", "v": v.to_string()}),
        SupportedScalar::I16(v) => json!({"t": "i16", "v": v.to_string()}),
        SupportedScalar::I32(v) => json!({"t": "i32", "v": v.to_string()}),
        SupportedScalar::I64(v) => json!({"t": "i64", "v": v.to_string()}),
        SupportedScalar::I128(v) => json!({"t": "i128", "v": v.to_string()}),
        SupportedScalar::Isize(v) => json!({"t": "isize", "v": v.to_string()}),
        SupportedScalar::U8(v) => json!({"t": "u8", "v": v.to_string()}),
        SupportedScalar::U16(v) => json!({"t": "u16", "v": v.to_string()}),
        SupportedScalar::U32(v) => json!({"t": "u32", "v": v.to_string()}),
        SupportedScalar::U64(v) => json!({"t": "u64", "v": v.to_string()}),
        SupportedScalar::U128(v) => json!({"t": "u128", "v": v.to_string()}),
        SupportedScalar::Usize(v) => json!({"t": "usize", "v": v.to_string()}),
        SupportedScalar::F32(v) => json!({"t": "f32", "bits": v.to_bits()}),
        SupportedScalar::F64(v) => json!({"t": "f64", "bits": v.to_bits().to_string()}),
        SupportedScalar::Bool(v) => json!({"t": "bool", "v": v}),
        SupportedScalar::Char(v) => json!({"t": "char", "v": *v as u32}),
        SupportedScalar::Empty() => json!({"t": "unit"}),
    }
}

fn struct_json<D: Fn(&PointerValue) -> Option<V>>(s: &StructValue, d: &D, depth: u32) -> Value {
    json!({
        "k": "struct",
        "ty": tyj!(&s.type_ident),
        "addr": s.raw_address,
        "m": s.members.iter().map(|m| json!([m.field_name, lower(&m.value, d, depth)])).collect::<Vec<_>>(),
    })
}

fn ptr_json<D: Fn(&PointerValue) -> Option<V>>(
    kind: &str,
    p: &PointerValue,
    d: &D,
    depth: u32,
) -> Value {
    let target = if depth > 0 && p.value.is_some() {
        d(p).map(|t| lower(&t, d, depth - 1))
    } else {
        None
    };
    json!({
        "k": kind,
        "ty": tyj!(&p.type_ident),
        "addr": p.raw_address,
        "ptr": p.value.map(|x| x as usize as u64),
        "target": target,
        "target_size": p.target_type_size,
    })
}

/// `d` dereferences a pointer through the debugger (reads the pointee from the debuggee).
pub fn lower<D: Fn(&PointerValue) -> Option<V>>(v: &V, d: &D, depth: u32) -> Value {
    match v {
        V::Scalar(s) => json!({
            "k": "scalar",
            "ty": tyj!(&s.type_ident),
            "addr": s.raw_address,
            "v": s.value.as_ref().map(scalar),
        }),
        V::Struct(s) => struct_json(s, d, depth),
        V::Array(a) => json!({
            "k": "array",
            "ty": tyj!(&a.type_ident),
            "addr": a.raw_address,
            "items": a.items.as_ref().map(|it| it.iter().map(|i| json!([i.index, lower(&i.value, d, depth)])).collect::<Vec<_>>()),
        }),
        V::CEnum(e) => json!({
            "k": "cenum", "ty": tyj!(&e.type_ident), "addr": e.raw_address, "v": e.value,
        }),
        V::RustEnum(e) => json!({
            "k": "enum",
            "ty": tyj!(&e.type_ident),
            "addr": e.raw_address,
            "variant": e.value.as_ref().map(|m| m.field_name.clone()),
            "v": e.value.as_ref().map(|m| lower(&m.value, d, depth)),
        }),
        V::Pointer(p) => ptr_json("ptr", p, d, depth),
        V::Subroutine(s) => json!({
            "k": "fn", "addr": s.address,
            "ret": s.return_type_ident.as_ref().map(|t| tyj!(t)),
        }),
        V::CModifiedVariable(c) => json!({
            "k": "cmod",
            "ty": tyj!(&c.type_ident),
            "mod": format!("{:?}", c.modifier),
            "addr": c.address,
            "v": c.value.as_ref().map(|x| lower(x, d, depth)),
        }),
        V::Specialized { value, original } => {
            let orig_ty = tyj!(&original.type_ident);
            let addr = original.raw_address;
            match value {
                None => json!({"k": "spec_none", "ty": orig_ty, "addr": addr, "orig": struct_json(original, d, depth)}),
                Some(sv) => {
                    let body = match sv {
                        SpecializedValue::Vector(vv) => json!({"s": "vec", "inner": struct_json(&vv.structure, d, depth)}),
                        SpecializedValue::VecDeque(vv) => json!({"s": "vecdeque", "inner": struct_json(&vv.structure, d, depth)}),
                        SpecializedValue::HashMap(m) => json!({"s": "hashmap", "kv": m.kv_items.iter().map(|(k, x)| json!([lower(k, d, depth), lower(x, d, depth)])).collect::<Vec<_>>()}),
                        SpecializedValue::BTreeMap(m) => json!({"s": "btreemap", "kv": m.kv_items.iter().map(|(k, x)| json!([lower(k, d, depth), lower(x, d, depth)])).collect::<Vec<_>>()}),
                        SpecializedValue::HashSet(s) => json!({"s": "hashset", "items": s.items.iter().map(|x| lower(x, d, depth)).collect::<Vec<_>>()}),
                        SpecializedValue::BTreeSet(s) => json!({"s": "btreeset", "items": s.items.iter().map(|x| lower(x, d, depth)).collect::<Vec<_>>()}),
                        SpecializedValue::String(s) => json!({"s": "string", "v": s.value}),
                        SpecializedValue::Str(s) => json!({"s": "str", "v": s.value}),
                        SpecializedValue::Tls(t) => json!({"s": "tls", "inner_ty": tyj!(&t.inner_type), "v": t.inner_value.as_ref().map(|x| lower(x, d, depth))}),
                        SpecializedValue::Cell(c) => json!({"s": "cell", "v": lower(c, d, depth)}),
                        SpecializedValue::RefCell(c) => json!({"s": "refcell", "v": lower(c, d, depth)}),
                        SpecializedValue::Rc(p) => json!({"s": "rc", "p": ptr_json("ptr", p, d, depth)}),
                        SpecializedValue::Arc(p) => json!({"s": "arc", "p": ptr_json("ptr", p, d, depth)}),
                        SpecializedValue::Uuid(u) => json!({"s": "uuid", "v": u.to_vec()}),
                        SpecializedValue::SystemTime(t) => json!({"s": "systemtime", "v": [t.0, t.1]}),
                        SpecializedValue::Instant(t) => json!({"s": "instant", "v": [t.0, t.1]}),
                    };
                    json!({"k": "spec", "ty": orig_ty, "addr": addr, "spec": body})
                }
            }
        }
    }
}

pub fn lit_json(l: &Literal) -> Value {
    match l {
        Literal::String(s) => json!({"l": "str", "v": s}),
        Literal::Int(i) => json!({"l": "int", "v": i.to_string()}),
        Literal::Float(f) => json!({"l": "float", "bits": f.to_bits().to_string()}),
        Literal::Address(a) => json!({"l": "addr", "v": a.to_string()}),
        Literal::Bool(b) => json!({"l": "bool", "v": b}),
        Literal::EnumVariant(n, p) => {
            json!({"l": "enum", "name": n, "p": p.as_ref().map(|x| lit_json(x))})
        }
        Literal::Array(a) => json!({"l": "array", "items": a.iter().map(low_json).collect::<Vec<_>>()}),
        Literal::AssocArray(m) => {
            let mut keys: Vec<_> = m.keys().cloned().collect();
            keys.sort();
            json!({"l": "assoc", "items": keys.iter().map(|k| json!([k, low_json(&m[k])])).collect::<Vec<_>>()})
        }
    }
}

fn low_json(l: &LiteralOrWildcard) -> Value {
    match l {
        LiteralOrWildcard::Literal(l) => lit_json(l),
        LiteralOrWildcard::Wildcard => json!({"l": "wild"}),
    }
}

pub fn dqe_json(d: &Dqe) -> Value {
    match d {
        Dqe::Variable(Selector::Name { var_name, local_only }) => {
            json!({"d": "var", "name": var_name, "local_only": local_only})
        }
        Dqe::Variable(Selector::Any) => json!({"d": "any"}),
        Dqe::PtrCast(p) => json!({"d": "ptrcast", "ptr": p.ptr.to_string(), "ty": p.ty}),
        Dqe::Field(b, f) => json!({"d": "field", "e": dqe_json(b), "f": f}),
        Dqe::Index(b, l) => json!({"d": "index", "e": dqe_json(b), "i": lit_json(l)}),
        Dqe::Slice(b, l, r) => json!({"d": "slice", "e": dqe_json(b), "l": l.map(|x| x.to_string()), "r": r.map(|x| x.to_string())}),
        Dqe::Deref(b) => json!({"d": "deref", "e": dqe_json(b)}),
        Dqe::Address(b) => json!({"d": "addr", "e": dqe_json(b)}),
        Dqe::Canonic(b) => json!({"d": "canonic", "e": dqe_json(b)}),
        Dqe::DataCast(_) => json!({"d": "datacast"}),
    }
}
