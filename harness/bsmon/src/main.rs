//! bsmon: monitoring worker. Hosts one real `bugstalker::debugger::Debugger` and executes
//! JSON commands (one per line on stdin), answering one JSON object per line on stdout.
//! Every answer carries the events the debugger's `EventHook` produced during the command and,
//! on request, raw observations made *independently of the debugger* (ptrace registers, debug
//! registers, /proc task states, text bytes vs. the ELF files).
//!
//! The worker is the only tracer of its debuggee and has no other children while a debugger
//! lives (BugStalker calls waitpid(-1)).

mod lower;
mod raw;

use bugstalker::debugger::address::{Address, GlobalAddress, RelocatedAddress};
use bugstalker::debugger::process::Child;
use bugstalker::debugger::register::debug::{BreakCondition, BreakSize};
use bugstalker::debugger::variable::dqe::{Dqe, Literal, Selector};
use bugstalker::debugger::variable::value::Value as BsValue;
use bugstalker::debugger::{
    BreakpointView, Debugger, DebuggerBuilder, EventHook, FunctionInfo, PlaceDescriptor,
    PlaceDescriptorOwned, StopReason, rust,
};
use bugstalker::ui::command::parser::expression;
use chumsky::Parser;
use nix::sys::signal::Signal;
use nix::unistd::Pid;
use serde_json::{Value, json};
use std::cell::RefCell;
use std::io::{BufRead, Read, Write};
use std::panic::{AssertUnwindSafe, catch_unwind};
use std::path::Path;
use std::rc::Rc;
use std::sync::{Arc, Mutex};

type Events = Rc<RefCell<Vec<Value>>>;

struct Recorder {
    ev: Events,
}

fn place_json(p: &PlaceDescriptor) -> Value {
    json!({
        "file": p.file.to_string_lossy(),
        "line": p.line_number,
        "col": p.column_number,
        "addr": u64::from(p.address),
        "is_stmt": p.is_stmt,
        "prolog_end": p.prolog_end,
        "epilog_begin": p.epilog_begin,
        "end_seq": p.end_sequence,
    })
}

fn place_owned_json(p: &PlaceDescriptorOwned) -> Value {
    json!({
        "file": p.file.to_string_lossy(),
        "line": p.line_number,
        "col": p.column_number,
        "addr": u64::from(p.address),
        "is_stmt": p.is_stmt,
        "prolog_end": p.prolog_end,
        "epilog_begin": p.epilog_begin,
    })
}

fn func_json(f: Option<&FunctionInfo>) -> Value {
    match f {
        None => Value::Null,
        Some(f) => json!({
            "name": f.name,
            "full_name": f.full_name(),
            "linkage_name": f.linkage_name,
        }),
    }
}

impl EventHook for Recorder {
    fn on_breakpoint(
        &self,
        pc: RelocatedAddress,
        num: u32,
        place: Option<PlaceDescriptor>,
        function: Option<&FunctionInfo>,
        thread_num: Option<u32>,
    ) -> anyhow::Result<()> {
        self.ev.borrow_mut().push(json!({
            "ev": "breakpoint", "pc": pc.as_u64(), "num": num,
            "place": place.as_ref().map(place_json), "func": func_json(function), "thread": thread_num,
        }));
        Ok(())
    }

    fn on_watchpoint(
        &self,
        pc: RelocatedAddress,
        num: u32,
        place: Option<PlaceDescriptor>,
        condition: BreakCondition,
        dqe_string: Option<&str>,
        old_value: Option<&BsValue>,
        new_value: Option<&BsValue>,
        end_of_scope: bool,
    ) -> anyhow::Result<()> {
        let nod = |_: &bugstalker::debugger::variable::value::PointerValue| None;
        self.ev.borrow_mut().push(json!({
            "ev": "watchpoint", "pc": pc.as_u64(), "num": num,
            "place": place.as_ref().map(place_json),
            "cond": condition.to_string(),
            "dqe": dqe_string,
            "old": old_value.map(|v| lower::lower(v, &nod, 0)),
            "new": new_value.map(|v| lower::lower(v, &nod, 0)),
            "end_of_scope": end_of_scope,
        }));
        Ok(())
    }

    fn on_step(
        &self,
        pc: RelocatedAddress,
        place: Option<PlaceDescriptor>,
        function: Option<&FunctionInfo>,
        thread_num: Option<u32>,
    ) -> anyhow::Result<()> {
        self.ev.borrow_mut().push(json!({
            "ev": "step", "pc": pc.as_u64(),
            "place": place.as_ref().map(place_json), "func": func_json(function), "thread": thread_num,
        }));
        Ok(())
    }

    fn on_async_step(
        &self,
        pc: RelocatedAddress,
        place: Option<PlaceDescriptor>,
        function: Option<&FunctionInfo>,
        task_id: u64,
        task_completed: bool,
    ) -> anyhow::Result<()> {
        self.ev.borrow_mut().push(json!({
            "ev": "async_step", "pc": pc.as_u64(),
            "place": place.as_ref().map(place_json), "func": func_json(function),
            "task": task_id, "completed": task_completed,
        }));
        Ok(())
    }

    fn on_signal(&self, signal: Signal) {
        self.ev
            .borrow_mut()
            .push(json!({"ev": "signal", "sig": signal as i32, "name": signal.as_str()}));
    }

    fn on_exit(&self, code: i32) {
        self.ev.borrow_mut().push(json!({"ev": "exit", "code": code}));
    }

    fn on_process_install(&self, pid: Pid, _: Option<&object::File>) {
        self.ev
            .borrow_mut()
            .push(json!({"ev": "install", "pid": pid.as_raw()}));
    }
}

struct Session {
    dbg: Option<Debugger>,
    events: Events,
    out: Arc<Mutex<Vec<u8>>>,
    err: Arc<Mutex<Vec<u8>>>,
    files: raw::FileCache,
    last_pid: Option<i32>,
    siglog: Arc<Mutex<Vec<Value>>>,
    epoch: Arc<std::sync::atomic::AtomicU64>,
}

fn spawn_drain(mut r: os_pipe::PipeReader, sink: Arc<Mutex<Vec<u8>>>) {
    std::thread::spawn(move || {
        let mut buf = [0u8; 65536];
        loop {
            match r.read(&mut buf) {
                Ok(0) | Err(_) => return,
                Ok(n) => sink.lock().unwrap().extend_from_slice(&buf[..n]),
            }
        }
    });
}

fn addr_json(a: &Address) -> Value {
    match a {
        Address::Relocated(r) => json!({"kind": "relocated", "addr": r.as_u64()}),
        Address::Global(g) => json!({"kind": "global", "addr": u64::from(*g)}),
    }
}

fn bp_view_json(v: &BreakpointView) -> Value {
    json!({
        "num": v.number,
        "addr": addr_json(&v.addr),
        "place": v.place.as_ref().map(|p| place_owned_json(p.as_ref())),
    })
}

fn stop_json(r: &StopReason) -> Value {
    match r {
        StopReason::DebugeeExit(c) => json!({"stop": "exit", "code": c}),
        StopReason::DebugeeStart => json!({"stop": "start"}),
        StopReason::Breakpoint(pid, pc) => {
            json!({"stop": "breakpoint", "tid": pid.as_raw(), "pc": pc.as_u64()})
        }
        StopReason::Watchpoint(pid, pc, ty) => {
            json!({"stop": "watchpoint", "tid": pid.as_raw(), "pc": pc.as_u64(), "ty": format!("{ty:?}")})
        }
        StopReason::SignalStop(pid, s) => {
            json!({"stop": "signal", "tid": pid.as_raw(), "sig": *s as i32})
        }
        StopReason::NoSuchProcess(pid) => json!({"stop": "nosuchprocess", "tid": pid.as_raw()}),
    }
}

fn perr<E: std::fmt::Display>(e: E) -> String {
    format!("{e}")
}

fn parse_dqe(text: &str) -> Result<Dqe, String> {
    expression::parser()
        .parse(text)
        .into_result()
        .map_err(|e| format!("parse error: {e:?}"))
}

fn get_u64(c: &Value, k: &str) -> Result<u64, String> {
    c.get(k)
        .and_then(|v| v.as_u64())
        .ok_or_else(|| format!("missing u64 field {k}"))
}

fn get_str<'a>(c: &'a Value, k: &str) -> Result<&'a str, String> {
    c.get(k)
        .and_then(|v| v.as_str())
        .ok_or_else(|| format!("missing string field {k}"))
}

fn cond_of(c: &Value) -> BreakCondition {
    match c.get("cond").and_then(|v| v.as_str()) {
        Some("rw") => BreakCondition::DataReadsWrites,
        _ => BreakCondition::DataWrites,
    }
}

fn lit_from_json(v: &Value) -> Result<Literal, String> {
    // literals are passed as text and parsed by the debugger's own literal parser
    let s = v.as_str().ok_or("literal must be a string")?;
    expression::literal()
        .parse(s)
        .into_result()
        .map_err(|e| format!("literal parse error: {e:?}"))
}

impl Session {
    fn dbg(&mut self) -> Result<&mut Debugger, String> {
        self.dbg.as_mut().ok_or_else(|| "no debugger".to_string())
    }

    fn proc_pid(&self) -> Option<i32> {
        self.dbg.as_ref().map(|d| d.process().pid().as_raw())
    }

    fn query_json(&mut self, which: &str, dqe: Dqe, deref_depth: u32) -> Result<Value, String> {
        let dbg = self.dbg()?;
        let results = match which {
            "var" => dbg.read_variable(dqe),
            "arg" => dbg.read_argument(dqe),
            _ => dbg.read_local_variables(),
        }
        .map_err(perr)?;
        let mut out = vec![];
        for qr in results {
            let ident = qr.identity().to_string();
            let name = qr.identity().name.clone();
            let scope: Option<Vec<(u64, u64)>> = qr
                .scope()
                .as_ref()
                .map(|rs| rs.iter().map(|r| (r.begin, r.end)).collect());
            let cell: RefCell<Value> = RefCell::new(Value::Null);
            let _ = qr.modify_value(|pcx, v| {
                let d = |p: &bugstalker::debugger::variable::value::PointerValue| p.deref(pcx);
                *cell.borrow_mut() = lower::lower(&v, &d, deref_depth);
                Some(v)
            });
            out.push(json!({"ident": ident, "name": name, "scope": scope, "value": cell.into_inner()}));
        }
        Ok(Value::Array(out))
    }

    fn handle(&mut self, c: &Value) -> Result<Value, String> {
        let cmd = get_str(c, "cmd")?;
        match cmd {
            "ping" => Ok(json!("pong")),
            "launch" => {
                let prog = get_str(c, "prog")?.to_string();
                let args: Vec<String> = c
                    .get("args")
                    .and_then(|a| a.as_array())
                    .map(|a| a.iter().filter_map(|x| x.as_str().map(String::from)).collect())
                    .unwrap_or_default();
                let cwd = c.get("cwd").and_then(|v| v.as_str()).map(String::from);
                let (ro, wo) = os_pipe::pipe().map_err(perr)?;
                let (re, we) = os_pipe::pipe().map_err(perr)?;
                self.out = Arc::new(Mutex::new(vec![]));
                self.err = Arc::new(Mutex::new(vec![]));
                spawn_drain(ro, self.out.clone());
                spawn_drain(re, self.err.clone());
                let tpl = Child::new(prog, args, cwd.as_deref().map(Path::new), wo, we);
                let proc = tpl.install().map_err(perr)?;
                let pid = proc.pid().as_raw();
                let dbg = DebuggerBuilder::new()
                    .with_hooks(Recorder { ev: self.events.clone() })
                    .build(proc)
                    .map_err(perr)?;
                self.dbg = Some(dbg);
                self.last_pid = Some(pid);
                Ok(json!({"pid": pid}))
            }
            "attach" => {
                let pid = get_u64(c, "pid")? as i32;
                let (ro, wo) = os_pipe::pipe().map_err(perr)?;
                let (re, we) = os_pipe::pipe().map_err(perr)?;
                spawn_drain(ro, self.out.clone());
                spawn_drain(re, self.err.clone());
                let dbg = DebuggerBuilder::new()
                    .with_hooks(Recorder { ev: self.events.clone() })
                    .build_attached(Pid::from_raw(pid), wo, we)
                    .map_err(perr)?;
                self.dbg = Some(dbg);
                self.last_pid = Some(pid);
                Ok(json!({"pid": pid}))
            }
            "drop" => {
                self.dbg = None;
                Ok(json!(true))
            }
            "detach" => {
                self.dbg()?.detach().map_err(perr)?;
                Ok(json!(true))
            }
            "pid" => Ok(json!(self.proc_pid())),
            "start" => {
                let r = self.dbg()?.start_debugee_with_reason().map_err(perr)?;
                Ok(stop_json(&r))
            }
            "start_force" => {
                let r = self.dbg()?.start_debugee_force_with_reason().map_err(perr)?;
                Ok(stop_json(&r))
            }
            "restart" => {
                let r = self.dbg()?.restart_debugee().map_err(perr)?;
                self.last_pid = Some(r.as_raw());
                Ok(json!({"pid": r.as_raw()}))
            }
            "cont" => {
                let r = self.dbg()?.continue_debugee_with_reason().map_err(perr)?;
                Ok(stop_json(&r))
            }
            "pause" => {
                self.dbg()?.pause_debugee().map_err(perr)?;
                Ok(json!(true))
            }
            "stepi" => self.dbg()?.stepi().map(|_| json!(true)).map_err(perr),
            "step" => self.dbg()?.step_into().map(|_| json!(true)).map_err(perr),
            "next" => self.dbg()?.step_over().map(|_| json!(true)).map_err(perr),
            "finish" => self.dbg()?.step_out().map(|_| json!(true)).map_err(perr),
            "ecx" => {
                let d = self.dbg()?;
                let e = d.ecx();
                let l = e.location();
                Ok(json!({"tid": l.pid.as_raw(), "pc": l.pc.as_u64(), "global_pc": u64::from(l.global_pc), "frame": e.frame_num()}))
            }
            "break_addr" => {
                let a = get_u64(c, "addr")?;
                let d = self.dbg()?;
                let v = d
                    .set_breakpoint_at_addr(RelocatedAddress::from(a))
                    .map_err(perr)?;
                Ok(bp_view_json(&v))
            }
            "break_line" => {
                let f = get_str(c, "file")?.to_string();
                let l = get_u64(c, "line")?;
                let d = self.dbg()?;
                let v = d.set_breakpoint_at_line(&f, l).map_err(perr)?;
                Ok(Value::Array(v.iter().map(bp_view_json).collect()))
            }
            "break_fn" => {
                let f = get_str(c, "name")?.to_string();
                let d = self.dbg()?;
                let v = d.set_breakpoint_at_fn(&f).map_err(perr)?;
                Ok(Value::Array(v.iter().map(bp_view_json).collect()))
            }
            "remove_addr" => {
                let a = get_u64(c, "addr")?;
                let addr = if c.get("global").and_then(|v| v.as_bool()).unwrap_or(false) {
                    Address::Global(GlobalAddress::from(a))
                } else {
                    Address::Relocated(RelocatedAddress::from(a))
                };
                let d = self.dbg()?;
                let v = d.remove_breakpoint(addr).map_err(perr)?;
                Ok(json!(v.as_ref().map(bp_view_json)))
            }
            "remove_num" => {
                let n = get_u64(c, "num")? as u32;
                let d = self.dbg()?;
                let v = d.remove_breakpoint_by_number(n).map_err(perr)?;
                Ok(json!(v.as_ref().map(bp_view_json)))
            }
            "remove_line" => {
                let f = get_str(c, "file")?.to_string();
                let l = get_u64(c, "line")?;
                let d = self.dbg()?;
                let v = d.remove_breakpoint_at_line(&f, l).map_err(perr)?;
                Ok(Value::Array(v.iter().map(bp_view_json).collect()))
            }
            "remove_fn" => {
                let f = get_str(c, "name")?.to_string();
                let d = self.dbg()?;
                let v = d.remove_breakpoint_at_fn(&f).map_err(perr)?;
                Ok(Value::Array(v.iter().map(bp_view_json).collect()))
            }
            "defer_fn" => {
                let f = get_str(c, "name")?.to_string();
                self.dbg()?.add_deferred_at_function(&f);
                Ok(json!(true))
            }
            "defer_line" => {
                let f = get_str(c, "file")?.to_string();
                let l = get_u64(c, "line")?;
                self.dbg()?.add_deferred_at_line(&f, l);
                Ok(json!(true))
            }
            "defer_addr" => {
                let a = get_u64(c, "addr")?;
                self.dbg()?.add_deferred_at_addr(RelocatedAddress::from(a));
                Ok(json!(true))
            }
            "bps" => {
                let d = self.dbg()?;
                Ok(Value::Array(
                    d.breakpoints_snapshot().iter().map(bp_view_json).collect(),
                ))
            }
            "watch_expr" => {
                let e = get_str(c, "expr")?.to_string();
                let dqe = parse_dqe(&e)?;
                let cond = cond_of(c);
                let d = self.dbg()?;
                let v = d.set_watchpoint_on_expr(&e, dqe, cond).map_err(perr)?;
                Ok(raw::wp_view_json(&v))
            }
            "watch_mem" => {
                let a = get_u64(c, "addr")?;
                let sz = get_u64(c, "size")? as u8;
                let size = BreakSize::try_from(sz).map_err(perr)?;
                let cond = cond_of(c);
                let d = self.dbg()?;
                let v = d
                    .set_watchpoint_on_memory(RelocatedAddress::from(a), size, cond, false)
                    .map_err(perr)?;
                Ok(raw::wp_view_json(&v))
            }
            "unwatch_num" => {
                let n = get_u64(c, "num")? as u32;
                let d = self.dbg()?;
                let v = d.remove_watchpoint_by_number(n).map_err(perr)?;
                Ok(json!(v.as_ref().map(raw::wp_view_json)))
            }
            "unwatch_addr" => {
                let a = get_u64(c, "addr")?;
                let d = self.dbg()?;
                let v = d
                    .remove_watchpoint_by_addr(RelocatedAddress::from(a))
                    .map_err(perr)?;
                Ok(json!(v.as_ref().map(raw::wp_view_json)))
            }
            "unwatch_expr" => {
                let e = get_str(c, "expr")?.to_string();
                let dqe = parse_dqe(&e)?;
                let d = self.dbg()?;
                let v = d.remove_watchpoint_by_expr(dqe).map_err(perr)?;
                Ok(json!(v.as_ref().map(raw::wp_view_json)))
            }
            "wps" => {
                let d = self.dbg()?;
                Ok(Value::Array(
                    d.watchpoint_list().iter().map(raw::wp_view_json).collect(),
                ))
            }
            "locals" => {
                let depth = c.get("deref").and_then(|v| v.as_u64()).unwrap_or(3) as u32;
                self.query_json("locals", Dqe::Variable(Selector::Any), depth)
            }
            "var" | "arg" => {
                let depth = c.get("deref").and_then(|v| v.as_u64()).unwrap_or(3) as u32;
                let dqe = match c.get("expr").and_then(|v| v.as_str()) {
                    Some(e) => parse_dqe(e)?,
                    None => Dqe::Variable(Selector::Any),
                };
                self.query_json(cmd, dqe, depth)
            }
            "var_names" | "arg_names" => {
                let dqe = match c.get("expr").and_then(|v| v.as_str()) {
                    Some(e) => parse_dqe(e)?,
                    None => Dqe::Variable(Selector::Any),
                };
                let d = self.dbg()?;
                let v = if cmd == "var_names" {
                    d.read_variable_names(dqe)
                } else {
                    d.read_argument_names(dqe)
                }
                .map_err(perr)?;
                Ok(json!(v))
            }
            "read_mem" => {
                let a = get_u64(c, "addr")? as usize;
                let n = get_u64(c, "n")? as usize;
                let d = self.dbg()?;
                let v = d.read_memory(a, n).map_err(perr)?;
                Ok(json!(raw::hex(&v)))
            }
            "write_mem" => {
                let a = get_u64(c, "addr")? as usize;
                let v = get_u64(c, "value")? as usize;
                self.dbg()?.write_memory(a, v).map_err(perr)?;
                Ok(json!(true))
            }
            "get_reg" => {
                let r = get_str(c, "reg")?.to_string();
                let v = self.dbg()?.get_register_value(&r).map_err(perr)?;
                Ok(json!(v))
            }
            "set_reg" => {
                let r = get_str(c, "reg")?.to_string();
                let v = get_u64(c, "value")?;
                self.dbg()?.set_register_value(&r, v).map_err(perr)?;
                Ok(json!(true))
            }
            "backtrace" => {
                let d = self.dbg()?;
                let tid = match c.get("tid").and_then(|v| v.as_i64()) {
                    Some(t) => Pid::from_raw(t as i32),
                    None => d.ecx().pid_on_focus(),
                };
                let bt = d.backtrace(tid).map_err(perr)?;
                Ok(raw::bt_json(&bt))
            }
            "frame_info" => {
                let d = self.dbg()?;
                let fi = d.frame_info().map_err(perr)?;
                Ok(json!({
                    "num": fi.num,
                    "ip": fi.frame.ip.as_u64(),
                    "func": fi.frame.func_name,
                    "base_addr": fi.base_addr.as_u64(),
                    "cfa": fi.cfa.as_u64(),
                    "return_addr": fi.return_addr.map(|a| a.as_u64()),
                }))
            }
            "frame" => {
                let n = get_u64(c, "num")? as u32;
                let r = self.dbg()?.set_frame_into_focus(n).map_err(perr)?;
                Ok(json!(r))
            }
            "threads" => {
                let d = self.dbg()?;
                let bt = c.get("bt").and_then(|v| v.as_bool()).unwrap_or(false);
                let ts = d.thread_state().map_err(perr)?;
                Ok(Value::Array(
                    ts.iter()
                        .map(|t| {
                            json!({
                                "num": t.thread.number,
                                "tid": t.thread.pid.as_raw(),
                                "status": format!("{:?}", t.thread.status),
                                "in_focus": t.in_focus,
                                "focus_frame": t.focus_frame,
                                "place": t.place.as_ref().map(place_owned_json),
                                "bt": if bt { t.bt.as_ref().map(|b| raw::bt_json(b)) } else { None },
                                "bt_len": t.bt.as_ref().map(|b| b.len()),
                            })
                        })
                        .collect(),
                ))
            }
            "thread" => {
                let n = get_u64(c, "num")? as u32;
                let t = self.dbg()?.set_thread_into_focus(n).map_err(perr)?;
                Ok(json!({"num": t.number, "tid": t.pid.as_raw()}))
            }
            "disasm" => {
                let d = self.dbg()?;
                let a = d.disasm().map_err(perr)?;
                Ok(json!({
                    "name": a.name,
                    "addr_in_focus": u64::from(a.addr_in_focus),
                    "ins": a.instructions.iter().map(|i| json!([u64::from(i.address), i.mnemonic, i.operands])).collect::<Vec<_>>(),
                }))
            }
            "sharedlibs" => {
                let d = self.dbg()?;
                Ok(Value::Array(
                    d.shared_libs()
                        .iter()
                        .map(|r| {
                            json!({
                                "path": r.path.to_string_lossy(),
                                "has_debug_info": r.has_debug_info,
                                "range": r.range.as_ref().map(|x| (x.from.as_u64(), x.to.as_u64())),
                            })
                        })
                        .collect(),
                ))
            }
            "symbols" => {
                let re = get_str(c, "regex")?.to_string();
                let d = self.dbg()?;
                let s = d.get_symbols(&re).map_err(perr)?;
                Ok(Value::Array(
                    s.iter()
                        .map(|s| json!({"name": s.name, "kind": format!("{:?}", s.kind), "addr": u64::from(s.addr)}))
                        .collect(),
                ))
            }
            "resolve_pcs" => {
                // batch pc -> (function, place)
                let pcs = c
                    .get("pcs")
                    .and_then(|v| v.as_array())
                    .ok_or("pcs missing")?
                    .clone();
                let d = self.dbg()?;
                let mut out = Vec::with_capacity(pcs.len());
                for p in pcs {
                    let pc = p.as_u64().ok_or("pc not u64")?;
                    match d.resolve_function_at_pc(GlobalAddress::from(pc)) {
                        Ok(Some((name, place))) => out.push(json!({
                            "fn": name,
                            "place": place.as_ref().map(place_owned_json),
                        })),
                        Ok(None) => out.push(Value::Null),
                        Err(e) => out.push(json!({"err": perr(e)})),
                    }
                }
                Ok(Value::Array(out))
            }
            "places_range" => {
                let f = get_str(c, "file")?.to_string();
                let s = get_u64(c, "start")?;
                let e = get_u64(c, "end")?;
                let d = self.dbg()?;
                let v = d.breakpoint_places_for_file_range(&f, s, e).map_err(perr)?;
                Ok(Value::Array(v.iter().map(place_owned_json).collect()))
            }
            "known_files" => {
                let d = self.dbg()?;
                Ok(json!(
                    d.known_files()
                        .map(|p| p.to_string_lossy().to_string())
                        .collect::<Vec<_>>()
                ))
            }
            "fn_range" => {
                let d = self.dbg()?;
                let r = d.current_function_range().map_err(perr)?;
                Ok(json!({"name": r.name, "file": r.file.to_string_lossy(), "start_line": r.start_line, "end_line": r.end_line, "stop": place_json(&r.stop_place)}))
            }
            "call" => {
                let f = get_str(c, "name")?.to_string();
                let args: Result<Vec<Literal>, String> = c
                    .get("args")
                    .and_then(|a| a.as_array())
                    .map(|a| a.iter().map(lit_from_json).collect())
                    .unwrap_or_else(|| Ok(vec![]));
                let args = args?;
                self.dbg()?.call(&f, &args).map_err(perr)?;
                Ok(json!(true))
            }
            "vard" | "argd" => {
                let e = get_str(c, "expr")?.to_string();
                let dqe = parse_dqe(&e)?;
                let d = self.dbg()?;
                let results = if cmd == "vard" {
                    d.read_variable(dqe)
                } else {
                    d.read_argument(dqe)
                }
                .map_err(perr)?;
                let mut out = vec![];
                for qr in &results {
                    match bugstalker::debugger::call::fmt::call_debug_fmt(d, qr) {
                        Ok(s) => out.push(json!({"ok": s})),
                        Err(e) => out.push(json!({"err": perr(e)})),
                    }
                }
                Ok(Value::Array(out))
            }
            "render" => {
                // text of the generic UI renderer for a DQE (used for type names)
                let e = get_str(c, "expr")?.to_string();
                let dqe = parse_dqe(&e)?;
                let d = self.dbg()?;
                let results = d.read_variable(dqe).map_err(perr)?;
                let mut out = vec![];
                for qr in &results {
                    let s = bugstalker::ui::generic::variable::render_value(qr.value());
                    out.push(json!(s));
                }
                Ok(Value::Array(out))
            }
            // ---- independent raw observations -------------------------------------------
            "peek" => {
                let pid = self.proc_pid().or(self.last_pid).ok_or("no pid")?;
                let a = get_u64(c, "addr")?;
                let n = get_u64(c, "n")? as usize;
                match raw::read_proc_mem(pid, a, n) {
                    Some(v) => Ok(json!(raw::hex(&v))),
                    None => Err("peek failed".into()),
                }
            }
            "poke" => {
                let pid = self.proc_pid().or(self.last_pid).ok_or("no pid")?;
                let a = get_u64(c, "addr")?;
                let data = raw::unhex(get_str(c, "hex")?).ok_or("bad hex")?;
                if raw::write_proc_mem(pid, a, &data) {
                    Ok(json!(true))
                } else {
                    Err("poke failed".into())
                }
            }
            "maps" => {
                let pid = self.proc_pid().or(self.last_pid).ok_or("no pid")?;
                Ok(json!(
                    std::fs::read_to_string(format!("/proc/{pid}/maps")).unwrap_or_default()
                ))
            }
            "mon" => {
                let pid = self.proc_pid().or(self.last_pid).ok_or("no pid")?;
                Ok(self.monitor(pid, c))
            }
            "output" => {
                let o = self.out.lock().unwrap().clone();
                let e = self.err.lock().unwrap().clone();
                Ok(json!({"stdout": raw::hex(&o), "stderr": raw::hex(&e)}))
            }
            "kill_signal" => {
                // send a signal from a helper thread after a delay (external sender)
                let pid = self.proc_pid().ok_or("no pid")?;
                let sig = get_u64(c, "sig")? as i32;
                let tid = c.get("tid").and_then(|v| v.as_i64()).map(|t| t as i32);
                let delay_us = c.get("delay_us").and_then(|v| v.as_u64()).unwrap_or(0);
                std::thread::spawn(move || {
                    if delay_us > 0 {
                        std::thread::sleep(std::time::Duration::from_micros(delay_us));
                    }
                    unsafe {
                        match tid {
                            Some(t) => {
                                libc::syscall(libc::SYS_tgkill, pid, t, sig);
                            }
                            None => {
                                libc::kill(pid, sig);
                            }
                        }
                    }
                });
                Ok(json!(true))
            }
            "wait_exit" => {
                // reap the (detached or released) child: only meaningful when no debugger owns it
                let pid = self.last_pid.ok_or("no pid")?;
                let timeout_ms = c.get("timeout_ms").and_then(|v| v.as_u64()).unwrap_or(5000);
                let t0 = std::time::Instant::now();
                loop {
                    let mut st = 0i32;
                    let r = unsafe { libc::waitpid(pid, &mut st, libc::WNOHANG) };
                    if r == pid {
                        if libc::WIFEXITED(st) {
                            return Ok(json!({"exited": libc::WEXITSTATUS(st)}));
                        }
                        if libc::WIFSIGNALED(st) {
                            return Ok(json!({"signaled": libc::WTERMSIG(st)}));
                        }
                        if libc::WIFSTOPPED(st) {
                            return Ok(json!({"stopped": libc::WSTOPSIG(st)}));
                        }
                        return Ok(json!({"status": st}));
                    }
                    if r < 0 {
                        return Err(format!("waitpid: {}", std::io::Error::last_os_error()));
                    }
                    if t0.elapsed().as_millis() as u64 > timeout_ms {
                        return Ok(json!({"timeout": true}));
                    }
                    std::thread::sleep(std::time::Duration::from_millis(2));
                }
            }
            "proc_alive" => {
                let pid = get_u64(c, "pid")? as i32;
                let st = std::fs::read_to_string(format!("/proc/{pid}/stat")).unwrap_or_default();
                let state = st.rfind(')').and_then(|p| st[p + 1..].trim().chars().next());
                Ok(json!({"exists": !st.is_empty(), "state": state.map(|c| c.to_string())}))
            }
            "parse_expr" => {
                let e = get_str(c, "text")?;
                match expression::parser().parse(e).into_result() {
                    Ok(d) => Ok(json!({"dqe": lower::dqe_json(&d)})),
                    Err(_) => Ok(json!({"dqe": null})),
                }
            }
            "parse_exprs" => {
                let arr = c.get("texts").and_then(|v| v.as_array()).ok_or("texts")?;
                let mut out = Vec::with_capacity(arr.len());
                for t in arr {
                    let e = t.as_str().unwrap_or("");
                    let r = catch_unwind(AssertUnwindSafe(|| {
                        expression::parser().parse(e).into_result().ok()
                    }));
                    match r {
                        Ok(Some(d)) => out.push(lower::dqe_json(&d)),
                        Ok(None) => out.push(Value::Null),
                        Err(_) => out.push(json!({"panic": take_panic()})),
                    }
                }
                Ok(Value::Array(out))
            }
            "parse_cmds" => {
                let arr = c.get("texts").and_then(|v| v.as_array()).ok_or("texts")?;
                let mut out = Vec::with_capacity(arr.len());
                for t in arr {
                    let e = t.as_str().unwrap_or("");
                    let r = catch_unwind(AssertUnwindSafe(|| {
                        bugstalker::ui::command::Command::parse(e).is_ok()
                    }));
                    match r {
                        Ok(b) => out.push(json!(b)),
                        Err(_) => out.push(json!({"panic": take_panic()})),
                    }
                }
                Ok(Value::Array(out))
            }
            "sample2" => {
                // all-stop double sample: task states + a memory block, twice, `sleep_us` apart
                let pid = self.proc_pid().or(self.last_pid).ok_or("no pid")?;
                let a = get_u64(c, "addr")?;
                let n = get_u64(c, "n")? as usize;
                let sleep_us = c.get("sleep_us").and_then(|v| v.as_u64()).unwrap_or(2000);
                let snap = |pid: i32| -> Value {
                    let tids = raw::task_ids(pid);
                    let tasks: Vec<Value> = tids
                        .iter()
                        .map(|t| json!([t, raw::task_state_settled(pid, *t, 3000).0.to_string()]))
                        .collect();
                    let pcs: Vec<Value> = tids.iter().map(|t| json!(raw::rip_of(*t))).collect();
                    json!({"tasks": tasks, "pcs": pcs, "mem": raw::read_proc_mem(pid, a, n).map(|v| raw::hex(&v))})
                };
                let s1 = snap(pid);
                std::thread::sleep(std::time::Duration::from_micros(sleep_us));
                let s2 = snap(pid);
                Ok(json!({"a": s1, "b": s2}))
            }
            "sigplan" => {
                // external sender: one helper thread sends the planned signals in order. Before each send it
                // checks that this kind is not already pending for the target (standard signals coalesce in the
                // kernel; a coalesced send would be a false "lost signal"), and records what was really sent.
                let pid = self.proc_pid().ok_or("no pid")?;
                let plan = c.get("plan").and_then(|v| v.as_array()).ok_or("plan")?.clone();
                let log = self.siglog.clone();
                let epoch = self.epoch.clone();
                let epoch0 = epoch.load(std::sync::atomic::Ordering::SeqCst);
                std::thread::spawn(move || {
                    for item in plan {
                        let hb = item.get("heartbeat").and_then(|v| v.as_bool()).unwrap_or(false);
                        let sig = item.get("sig").and_then(|v| v.as_i64()).unwrap_or(0) as i32;
                        let tid = item.get("tid").and_then(|v| v.as_i64()).map(|t| t as i32);
                        let delay_us = item.get("delay_us").and_then(|v| v.as_u64()).unwrap_or(0);
                        if delay_us > 0 {
                            std::thread::sleep(std::time::Duration::from_micros(delay_us));
                        }
                        // a heartbeat only exists to end a blocking resume: it is dropped once that resume returned
                        if hb && epoch.load(std::sync::atomic::Ordering::SeqCst) != epoch0 {
                            log.lock().unwrap().push(json!({"sig": sig, "tid": tid, "sent": false, "dropped_heartbeat": true}));
                            continue;
                        }
                        let pending = raw::sig_pending(pid, tid, sig);
                        let mut sent = false;
                        if pending == Some(false) {
                            let r = unsafe {
                                match tid {
                                    Some(t) => libc::syscall(libc::SYS_tgkill, pid, t, sig) as i32,
                                    None => libc::kill(pid, sig),
                                }
                            };
                            sent = r == 0;
                        }
                        log.lock().unwrap().push(json!({"sig": sig, "tid": tid, "sent": sent, "pending_before": pending}));
                    }
                    log.lock().unwrap().push(json!({"done": true}));
                });
                Ok(json!(true))
            }
            "sigplan_result" => {
                // wait (bounded) until the sender finished, then return and clear its log
                let t0 = std::time::Instant::now();
                loop {
                    {
                        let mut l = self.siglog.lock().unwrap();
                        if l.iter().any(|e| e.get("done").is_some()) || t0.elapsed().as_millis() > 5000 {
                            let v: Vec<Value> = std::mem::take(&mut *l);
                            return Ok(Value::Array(v));
                        }
                    }
                    std::thread::sleep(std::time::Duration::from_millis(1));
                }
            }
            "probe" => Ok(probe_json()),
            x => Err(format!("unknown command {x}")),
        }
    }

    fn monitor(&mut self, pid: i32, c: &Value) -> Value {
        let want = |k: &str| c.get(k).and_then(|v| v.as_bool()).unwrap_or(true);
        let mut m = serde_json::Map::new();
        let tids = raw::task_ids(pid);
        if want("tasks") {
            m.insert(
                "tasks".into(),
                Value::Array(
                    tids.iter()
                        .map(|t| {
                            let (s, ms) = raw::task_state_settled(pid, *t, 3000);
                            if matches!(s, 't' | 'Z' | 'X' | 'E') {
                                json!({"tid": t, "state": s.to_string(), "settle_ms": ms})
                            } else {
                                // a task outside tracing stop: record what the kernel says it is doing
                                let rd = |f: &str| {
                                    std::fs::read_to_string(format!("/proc/{pid}/task/{t}/{f}"))
                                        .unwrap_or_default()
                                        .trim()
                                        .to_string()
                                };
                                let status: Vec<String> = rd("status")
                                    .lines()
                                    .filter(|l| {
                                        ["State", "TracerPid", "SigPnd", "ShdPnd", "SigBlk"]
                                            .iter()
                                            .any(|k| l.starts_with(k))
                                    })
                                    .map(|l| l.to_string())
                                    .collect();
                                json!({"tid": t, "state": s.to_string(), "settle_ms": ms, "wchan": rd("wchan"),
                                       "syscall": rd("syscall"), "status": status})
                            }
                        })
                        .collect(),
                ),
            );
        }
        if want("regs") {
            let mut r = serde_json::Map::new();
            for t in &tids {
                r.insert(t.to_string(), raw::regs_json(*t));
            }
            m.insert("regs".into(), Value::Object(r));
        }
        if want("dr") {
            let mut r = serde_json::Map::new();
            for t in &tids {
                r.insert(t.to_string(), json!(raw::debug_regs(*t)));
            }
            m.insert("dr".into(), Value::Object(r));
        }
        if want("text") {
            m.insert("text".into(), raw::text_diff(pid, &mut self.files));
        }
        if let Some(d) = self.dbg.as_ref() {
            if want("bps") {
                m.insert(
                    "bps".into(),
                    Value::Array(d.breakpoints_snapshot().iter().map(bp_view_json).collect()),
                );
                m.insert(
                    "wps".into(),
                    Value::Array(d.watchpoint_list().iter().map(raw::wp_view_json).collect()),
                );
            }
            if want("ecx") {
                let e = d.ecx();
                let l = e.location();
                m.insert(
                    "ecx".into(),
                    json!({"tid": l.pid.as_raw(), "pc": l.pc.as_u64(), "frame": e.frame_num()}),
                );
            }
            if want("thr") {
                match d.thread_state() {
                    Ok(ts) => {
                        m.insert(
                            "thr".into(),
                            Value::Array(
                                ts.iter()
                                    .map(|t| json!({"num": t.thread.number, "tid": t.thread.pid.as_raw(), "status": format!("{:?}", t.thread.status), "in_focus": t.in_focus}))
                                    .collect(),
                            ),
                        );
                    }
                    Err(e) => {
                        m.insert("thr_err".into(), json!(perr(e)));
                    }
                }
            }
        }
        m.insert("probe".into(), probe_json());
        Value::Object(m)
    }
}

fn probe_json() -> Value {
    let log = bugstalker::verif::drain_probe_log();
    json!({
        "calls": bugstalker::verif::probe_calls(),
        "delay_hits": bugstalker::verif::delay_hits(),
        "oob": log.iter().map(|r| json!({"site": r.site, "have": r.have, "need": r.need})).collect::<Vec<_>>(),
    })
}

thread_local! {
    static LAST_PANIC: RefCell<Option<Value>> = const { RefCell::new(None) };
}

fn take_panic() -> Value {
    LAST_PANIC.with(|p| p.borrow_mut().take()).unwrap_or(Value::Null)
}

fn main() {
    std::panic::set_hook(Box::new(|info| {
        let loc = info
            .location()
            .map(|l| format!("{}:{}", l.file(), l.line()))
            .unwrap_or_default();
        let msg = if let Some(s) = info.payload().downcast_ref::<&str>() {
            s.to_string()
        } else if let Some(s) = info.payload().downcast_ref::<String>() {
            s.clone()
        } else {
            "<non-string panic>".to_string()
        };
        LAST_PANIC.with(|p| *p.borrow_mut() = Some(json!({"loc": loc, "msg": msg})));
    }));

    if std::env::var("RUST_LOG").is_ok() {
        let _ = env_logger::builder().format_timestamp_micros().try_init();
    }
    rust::Environment::init(None);

    let mut s = Session {
        dbg: None,
        events: Rc::new(RefCell::new(vec![])),
        out: Arc::new(Mutex::new(vec![])),
        err: Arc::new(Mutex::new(vec![])),
        files: raw::FileCache::default(),
        last_pid: None,
        siglog: Arc::new(Mutex::new(vec![])),
        epoch: Arc::new(std::sync::atomic::AtomicU64::new(0)),
    };

    let stdin = std::io::stdin();
    let stdout = std::io::stdout();
    let mut line = String::new();
    loop {
        line.clear();
        match stdin.lock().read_line(&mut line) {
            Ok(0) | Err(_) => break,
            Ok(_) => {}
        }
        let t0 = std::time::Instant::now();
        let c: Value = match serde_json::from_str(line.trim()) {
            Ok(v) => v,
            Err(e) => {
                let mut o = stdout.lock();
                let _ = writeln!(o, "{}", json!({"err": format!("bad json: {e}")}));
                let _ = o.flush();
                continue;
            }
        };
        if c.get("cmd").and_then(|v| v.as_str()) == Some("quit") {
            break;
        }
        let res = catch_unwind(AssertUnwindSafe(|| s.handle(&c)));
        if matches!(c.get("cmd").and_then(|v| v.as_str()), Some("cont" | "start" | "stepi" | "step" | "next" | "finish" | "restart")) {
            s.epoch.fetch_add(1, std::sync::atomic::Ordering::SeqCst);
        }
        let mut reply = serde_json::Map::new();
        let mut panicked = false;
        match res {
            Ok(Ok(v)) => {
                reply.insert("ok".into(), v);
            }
            Ok(Err(e)) => {
                reply.insert("err".into(), json!(e));
            }
            Err(_) => {
                panicked = true;
                reply.insert("panic".into(), take_panic());
            }
        }
        let evs: Vec<Value> = std::mem::take(&mut *s.events.borrow_mut());
        reply.insert("ev".into(), Value::Array(evs));
        if !panicked && c.get("mon").is_some() && !c["mon"].is_null() && c["cmd"] != "mon" {
            if let Some(pid) = s.proc_pid().or(s.last_pid) {
                let mc = c["mon"].clone();
                let r = catch_unwind(AssertUnwindSafe(|| s.monitor(pid, &mc)));
                match r {
                    Ok(v) => {
                        reply.insert("mon".into(), v);
                    }
                    Err(_) => {
                        reply.insert("mon_panic".into(), take_panic());
                    }
                }
            }
        }
        reply.insert("us".into(), json!(t0.elapsed().as_micros() as u64));
        let mut o = stdout.lock();
        let _ = writeln!(o, "{}", Value::Object(reply));
        let _ = o.flush();
    }
    // dropping the session drops the debugger (kills a launched debuggee)
    let r = catch_unwind(AssertUnwindSafe(|| drop(s)));
    if r.is_err() {
        let mut o = stdout.lock();
        let _ = writeln!(o, "{}", json!({"drop_panic": take_panic()}));
        let _ = o.flush();
    }
}
