"""storm family (DAP): a program that writes bursts of stdout/stderr lines around every call of `tick` (the
breakpoint site), starts and joins short-lived threads, keeps a few variables for conditions/logpoints, and exits
with a seed-derived code."""
import random


def gen(seed, iters=6, lines=40, threads=True):
    rng = random.Random(seed)
    code = rng.choice([0, 0, 3, 9])
    L = []
    e = L.append
    e('#![allow(dead_code, unused)]')
    e('use std::io::Write;')
    e('#[inline(never)]')
    e('fn tick(i: u64, flag: bool) -> u64 {')
    e('    let v = i.wrapping_mul(3);')
    tick_line = len(L)
    e('    v + 1')
    e('}')
    e('#[inline(never)]')
    e('fn other(i: u64) -> u64 {')
    e('    let w = i ^ 0x55;')
    other_line = len(L)
    e('    w + 2')
    e('}')
    e('#[inline(never)]')
    e('fn in_thread(i: u64) -> u64 {')
    e('    let t = i + 100;')
    thread_line = len(L)
    e('    t * 2')
    e('}')
    e('fn burst(n: u64, tag: u64) {')
    e('    let mut j = 0;')
    e('    while j < n {')
    e('        println!("out {} {}", tag, j);')
    e('        eprintln!("err {} {}", tag, j);')
    e('        j += 1;')
    e('    }')
    e('    std::io::stdout().flush().unwrap();')
    e('}')
    e('fn main() {')
    e('    let mut acc = 0u64;')
    e('    let mut i = 0u64;')
    e(f'    while i < {iters} {{')
    e(f'        burst({lines}, i);')
    e('        acc = acc.wrapping_add(tick(i, i % 2 == 0));')
    e(f'        burst({lines}, 100 + i);')
    e('        acc ^= other(i);')
    if threads:
        e('        if i % 2 == 1 {')
        e('            let h = std::thread::spawn(move || in_thread(i));')
        e('            acc ^= h.join().unwrap();')
        e('        }')
    e('        i += 1;')
    e('    }')
    e('    println!("acc={}", acc);')
    e(f'    std::process::exit({code});')
    e('}')
    side = {'tick_line': tick_line, 'other_line': other_line, 'thread_line': thread_line, 'iters': iters, 'lines': lines, 'exit_code': code,
            'threads': threads}
    return '\n'.join(L) + '\n', side
