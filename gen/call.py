"""call family: functions with 0..6 integer/bool/pointer parameters that append (id, args) to a static log; stop
positions in a leaf with locals in the red zone, in a loop, in live-float code and in a worker thread while the
main thread is blocked in join; Debug-formattable values printed by the program itself."""
import random

FUNCS = [
    ('zc0', []),
    ('zc1', [('a', 'u64')]),
    ('zc2', [('a', 'i32'), ('b', 'bool')]),
    ('zc3', [('a', 'u8'), ('b', 'i64'), ('c', '*const u8')]),
    ('zc4', [('a', 'i8'), ('b', 'u16'), ('c', 'i16'), ('d', 'u32')]),
    ('zc6', [('a', 'u64'), ('b', 'i64'), ('c', 'u32'), ('d', 'i32'), ('e', 'u16'), ('f', 'bool')]),
]


def gen(seed):
    rng = random.Random(seed)
    L = []
    e = L.append
    e('#![allow(dead_code, unused)]')
    e('use std::sync::atomic::{AtomicU64, Ordering::SeqCst};')
    e('#[no_mangle] pub static LOGN: AtomicU64 = AtomicU64::new(0);')
    e('#[no_mangle] pub static LOG: [AtomicU64; 8 * 256] = [const { AtomicU64::new(0) }; 8 * 256];')
    e('#[inline(never)] fn log(id: u64, a: [u64; 6]) {')
    e('    let n = LOGN.fetch_add(1, SeqCst) as usize % 256;')
    e('    LOG[n * 8].store(id, SeqCst);')
    e('    let mut i = 0; while i < 6 { LOG[n * 8 + 1 + i].store(a[i], SeqCst); i += 1; }')
    e('}')
    for fid, (name, params) in enumerate(FUNCS):
        ps = ', '.join(f'{n}: {t}' for n, t in params)
        args = [f'{n} as i64 as u64' if t != '*const u8' and t != 'bool' else (f'{n} as u64' if t != 'bool' else f'{n} as u64') for n, t in params]
        args += ['0'] * (6 - len(args))
        e(f'#[inline(never)] pub fn {name}({ps}) -> u64 {{ log({fid}, [{", ".join(args)}]); {fid + 1} }}')
    e('#[derive(Debug, Clone)] struct Pt { x: i32, y: i64, tag: &\'static str }')
    e('#[inline(never)] fn leaf(a: u64, b: u64) -> u64 {')
    e('    let t0 = a ^ 0x1111; let t1 = b.wrapping_mul(3); let t2 = t0.wrapping_add(t1);')
    leaf_line = len(L) + 1
    e('    let t3 = t2.rotate_left(7) ^ t0;')
    e('    t3.wrapping_add(t1)')
    e('}')
    e('#[inline(never)] fn floaty(x: f64) -> f64 {')
    e('    let a = x * 1.5 + 0.25; let b = a.sqrt() * 3.0;')
    float_line = len(L) + 1
    e('    let c = a * b - x;')
    e('    c / (b + 1.0)')
    e('}')
    e('#[inline(never)] fn in_thread(v: u64) -> u64 {')
    thread_line = len(L) + 1
    e('    let w = v.wrapping_mul(17);')
    e('    w ^ 5')
    e('}')
    e('#[inline(never)] fn show(p: &Pt, v: &Vec<i32>, o: &Option<&str>, t: &(u8, bool)) {')
    show_line = len(L) + 1
    e('    println!("dbg p={:?}", p);')
    e('    println!("dbg v={:?}", v);')
    e('    println!("dbg o={:?}", o);')
    e('    println!("dbg t={:?}", t);')
    e('}')
    e('fn main() {')
    e('    let mut acc = 0u64;')
    e('    acc ^= zc0(); acc ^= zc1(5); acc ^= zc2(-3, true); acc ^= zc3(9, -9, std::ptr::null()); acc ^= zc4(-1, 2, -3, 4); acc ^= zc6(1, -2, 3, -4, 5, false);')
    e('    let mut i = 0u64;')
    e('    while i < 4 {')
    loop_line = len(L) + 1
    e('        acc = acc.wrapping_add(leaf(i, acc));')
    e('        i += 1;')
    e('    }')
    e('    let f = floaty(2.0 + acc as f64 % 7.0);')
    e(f'    let p = Pt {{ x: {rng.randint(-99, 99)}, y: {rng.randint(-10**12, 10**12)}, tag: "zq{rng.randint(0, 99)}" }};')
    e(f'    let v: Vec<i32> = vec![{", ".join(str(rng.randint(-50, 50)) for _ in range(rng.randint(0, 6)))}];')
    e(f'    let o: Option<&str> = {rng.choice(["None", "Some(" + chr(34) + "hey" + chr(34) + ")"])};')
    e(f'    let t: (u8, bool) = ({rng.randint(0, 255)}, {rng.choice(["true", "false"])});')
    vard_line = len(L) + 1
    e('    show(&p, &v, &o, &t);')
    e('    let h = std::thread::spawn(move || in_thread(acc));')
    e('    let r = h.join().unwrap();')
    e('    println!("acc={} f={} r={}", acc, f, r);')
    e('    println!("logn={}", LOGN.load(SeqCst));')
    e('}')
    side = {'funcs': [{'name': n, 'params': [t for _, t in ps]} for n, ps in FUNCS], 'leaf_line': leaf_line, 'float_line': float_line,
            'thread_line': thread_line, 'loop_line': loop_line, 'show_line': show_line, 'vard_line': vard_line}
    return '\n'.join(L) + '\n', side
