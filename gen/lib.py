"""lib family: a cdylib with its own hit counter and a host that either links it at start-up or loads it with a
generated dlopen / dlclose sequence."""
import random


def gen_lib(seed):
    rng = random.Random(seed)
    k = rng.randint(3, 99)
    src = f'''#![allow(dead_code, unused)]
use std::sync::atomic::{{AtomicU64, Ordering::SeqCst}};
#[no_mangle]
pub static ZQ_PLUG_HITS: AtomicU64 = AtomicU64::new(0);
#[inline(never)]
fn zq_inner(x: u64) -> u64 {{
    let y = x.wrapping_mul({k});
    y ^ {k}
}}
#[no_mangle]
#[inline(never)]
pub extern "C" fn zq_plug_calc(x: u64) -> u64 {{
    ZQ_PLUG_HITS.fetch_add(1, SeqCst);
    let r = zq_inner(x);
    r.wrapping_add(1)
}}
'''
    lines = src.splitlines()
    side = {'k': k, 'inner_line': next(i + 1 for i, l in enumerate(lines) if 'let y =' in l),
            'calc_line': next(i + 1 for i, l in enumerate(lines) if 'ZQ_PLUG_HITS.fetch_add' in l)}
    return src, side


def gen_host(seed, mode, libpath, rounds=None):
    """mode: 'startup' (linked) or 'dlopen'. rounds: list of number of calls per load (dlopen mode)."""
    rng = random.Random(seed)
    rounds = rounds or [rng.randint(1, 3) for _ in range(rng.randint(2, 3))]
    L = ['#![allow(dead_code, unused)]']
    e = L.append
    if mode == 'startup':
        e('#[link(name = "zqplug")]')
        e('extern "C" { fn zq_plug_calc(x: u64) -> u64; }')
        e('#[inline(never)] fn call_plug(x: u64) -> u64 { let r = unsafe { zq_plug_calc(x) }; r ^ 3 }')
        e('#[inline(never)] fn between(i: u64) -> u64 { i + 1 }')
        e('fn main() {')
        e('    let mut acc = 7u64;')
        for r in rounds:
            for _ in range(r):
                e('    acc = call_plug(acc);')
            e('    acc = acc.wrapping_mul(0x9E3779B97F4A7C15) ^ between(acc);')
        e('    println!("{:016x}", acc);')
        e('}')
    else:
        e('extern "C" {')
        e('    fn dlopen(path: *const u8, flags: i32) -> *mut u8;')
        e('    fn dlsym(h: *mut u8, name: *const u8) -> *mut u8;')
        e('    fn dlclose(h: *mut u8) -> i32;')
        e('}')
        e('type Calc = extern "C" fn(u64) -> u64;')
        e('#[inline(never)] fn call_plug(f: Calc, x: u64) -> u64 { let r = f(x); r ^ 3 }')
        e('#[inline(never)] fn between(i: u64) -> u64 { i + 1 }')
        e('fn main() {')
        e('    let mut acc = 7u64;')
        e(f'    let path = b"{libpath}\\0";')
        for r in rounds:
            e('    {')
            e('        let h = unsafe { dlopen(path.as_ptr(), 2) };')
            e('        assert!(!h.is_null());')
            e('        let f: Calc = unsafe { std::mem::transmute(dlsym(h, b"zq_plug_calc\\0".as_ptr())) };')
            for _ in range(r):
                e('        acc = call_plug(f, acc);')
            e('        unsafe { dlclose(h); }')
            e('    }')
            e('    acc = acc.wrapping_mul(0x9E3779B97F4A7C15) ^ between(acc);')
        e('    println!("{:016x}", acc);')
        e('}')
    side = {'mode': mode, 'rounds': rounds, 'total_calls': sum(rounds)}
    return '\n'.join(L) + '\n', side
