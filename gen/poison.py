"""poison family (C08): page-sized buffers holding adversarial bytes (all-ones lengths, self-referential and
cyclic pointers, huge capacities, pointer/len/cap triples aimed at other poison pages, a page that ends at an
unmapped page) plus one variable and one raw pointer variable of every std collection type, so that `(T)addr`
casts can aim any type at any bytes."""


def gen(seed):
    src = r'''#![allow(dead_code, unused)]
use std::collections::{BTreeMap, BTreeSet, HashMap, HashSet, VecDeque};
use std::rc::Rc;
use std::sync::Arc;
use std::cell::{Cell, RefCell};
extern "C" {
    fn mmap(addr: *mut u8, len: usize, prot: i32, flags: i32, fd: i32, off: i64) -> *mut u8;
    fn munmap(addr: *mut u8, len: usize) -> i32;
}
#[repr(C, align(4096))]
pub struct Page(pub [u64; 512]);
#[no_mangle] pub static mut P_ONES: Page = Page([u64::MAX; 512]);
#[no_mangle] pub static mut P_ZERO: Page = Page([0; 512]);
#[no_mangle] pub static mut P_SELF: Page = Page([0; 512]);
#[no_mangle] pub static mut P_CYCLE_A: Page = Page([0; 512]);
#[no_mangle] pub static mut P_CYCLE_B: Page = Page([0; 512]);
#[no_mangle] pub static mut P_HUGE: Page = Page([0x7fff_ffff_ffff_fff0; 512]);
#[no_mangle] pub static mut P_SMALL: Page = Page([3; 512]);
#[no_mangle] pub static mut P_TRIPLE: Page = Page([0; 512]);
#[no_mangle] pub static mut P_NEG: Page = Page([0x8000_0000_0000_0001; 512]);
#[no_mangle] pub static mut P_EDGE: u64 = 0;      // address of the last 16 bytes before an unmapped page
#[derive(Debug)]
pub struct Node { pub next: *const Node, pub val: u64 }
#[derive(Debug, Clone, Copy, PartialEq, Eq, Hash, PartialOrd, Ord)]
pub struct Key { pub a: i32, pub b: u8 }
#[inline(never)]
fn marker(x: u64) -> u64 { x + 1 }
#[inline(never)]
fn keep<T>(t: &T) { unsafe { std::ptr::read_volatile(t as *const T as *const u8); } }
fn main() {
    unsafe {
        let a_self = &raw const P_SELF as u64;
        let a_a = &raw const P_CYCLE_A as u64;
        let a_b = &raw const P_CYCLE_B as u64;
        let a_ones = &raw const P_ONES as u64;
        let mut i = 0;
        while i < 512 {
            P_SELF.0[i] = a_self;
            P_CYCLE_A.0[i] = a_b;
            P_CYCLE_B.0[i] = a_a;
            P_TRIPLE.0[i] = match i % 3 { 0 => a_ones, 1 => u64::MAX >> 1, _ => u64::MAX >> 2 };
            i += 1;
        }
        let base = mmap(std::ptr::null_mut(), 2 * 4096, 3, 0x22, -1, 0);
        munmap(base.add(4096), 4096);
        let mut j = 0;
        while j < 4096 { *base.add(j) = 0xEE; j += 1; }
        P_EDGE = base as u64 + 4096 - 16;
        keep(&*(&raw const P_ONES)); keep(&*(&raw const P_ZERO)); keep(&*(&raw const P_HUGE)); keep(&*(&raw const P_SMALL)); keep(&*(&raw const P_NEG));
    }
    let v: Vec<i32> = vec![1, 2, 3];
    let s: String = String::from("poison");
    let dq: VecDeque<u64> = VecDeque::from(vec![4, 5, 6]);
    let hm: HashMap<u32, u32> = [(1, 10), (2, 20)].into_iter().collect();
    let hs: HashSet<i32> = [7, 8].into_iter().collect();
    let bm: BTreeMap<i32, i32> = [(1, 1), (2, 4), (3, 9)].into_iter().collect();
    let bs: BTreeSet<i32> = [5, 6, 7].into_iter().collect();
    let pairs: HashMap<(i32, i32), u8> = [((1, 2), 3), ((4, 5), 6)].into_iter().collect();
    let ordered: BTreeMap<(i32, i32, i32), u8> = [((1, 2, 3), 1), ((4, 5, 6), 2)].into_iter().collect();
    let keyed: HashMap<Key, u8> = [(Key { a: 1, b: 2 }, 3)].into_iter().collect();
    let arrkey: HashMap<[u8; 2], u8> = [([1, 2], 3)].into_iter().collect();
    let rc: Rc<i32> = Rc::new(11);
    let arc: Arc<i32> = Arc::new(12);
    let bx: Box<[u8]> = vec![1u8, 2, 3].into_boxed_slice();
    let st: &str = "text";
    let sl: &[u16] = &[1, 2, 3];
    let arr: [u32; 4] = [9, 8, 7, 6];
    let tup: (u8, (i16, bool)) = (1, (-2, true));
    let unit: () = ();
    let empty: [u8; 0] = [];
    let cell: Cell<i32> = Cell::new(5);
    let refcell: RefCell<Vec<u8>> = RefCell::new(vec![1]);
    let node: Node = Node { next: std::ptr::null(), val: 1 };
    let opt: Option<Box<Node>> = Some(Box::new(Node { next: &node, val: 2 }));
    let p_vec: *const Vec<i32> = &v;
    let p_string: *const String = &s;
    let p_dq: *const VecDeque<u64> = &dq;
    let p_hm: *const HashMap<u32, u32> = &hm;
    let p_hs: *const HashSet<i32> = &hs;
    let p_bm: *const BTreeMap<i32, i32> = &bm;
    let p_bs: *const BTreeSet<i32> = &bs;
    let p_rc: *const Rc<i32> = &rc;
    let p_arc: *const Arc<i32> = &arc;
    let p_bx: *const Box<[u8]> = &bx;
    let p_str: *const &str = &st;
    let p_sl: *const &[u16] = &sl;
    let p_node: *const Node = &node;
    let p_opt: *const Option<Box<Node>> = &opt;
    let p_pairs: *const HashMap<(i32, i32), u8> = &pairs;
    let p_refcell: *const RefCell<Vec<u8>> = &refcell;
    let p_u64: *const u64 = &node.val;
    let p_unit: *const () = &unit;
    let r = marker(v.len() as u64);
    keep(&v); keep(&s); keep(&dq); keep(&hm); keep(&hs); keep(&bm); keep(&bs); keep(&pairs); keep(&ordered); keep(&keyed); keep(&arrkey);
    keep(&rc); keep(&arc); keep(&bx); keep(&st); keep(&sl); keep(&arr); keep(&tup); keep(&empty); keep(&cell); keep(&refcell); keep(&node); keep(&opt);
    keep(&p_vec); keep(&p_string); keep(&p_dq); keep(&p_hm); keep(&p_hs); keep(&p_bm); keep(&p_bs); keep(&p_rc); keep(&p_arc); keep(&p_bx); keep(&p_str);
    keep(&p_sl); keep(&p_node); keep(&p_opt); keep(&p_pairs); keep(&p_refcell); keep(&p_u64); keep(&p_unit);
    println!("{}", r);
}
'''
    lines = src.splitlines()
    side = {'marker_call_line': next(i + 1 for i, l in enumerate(lines) if 'let r = marker(' in l),
            'vars': ['v', 's', 'dq', 'hm', 'hs', 'bm', 'bs', 'pairs', 'ordered', 'keyed', 'arrkey', 'rc', 'arc', 'bx', 'st', 'sl', 'arr', 'tup', 'unit', 'empty',
                     'cell', 'refcell', 'node', 'opt'],
            'ptrs': ['p_vec', 'p_string', 'p_dq', 'p_hm', 'p_hs', 'p_bm', 'p_bs', 'p_rc', 'p_arc', 'p_bx', 'p_str', 'p_sl', 'p_node', 'p_opt', 'p_pairs',
                     'p_refcell', 'p_u64', 'p_unit'],
            'pages': ['P_ONES', 'P_ZERO', 'P_SELF', 'P_CYCLE_A', 'P_CYCLE_B', 'P_HUGE', 'P_SMALL', 'P_TRIPLE', 'P_NEG']}
    return src, side
