"""mem family: a page-aligned region [PROT_NONE][rw][rw][PROT_NONE] with a known byte pattern, statics with
neighbours, and a probe whose inline asm stores the callee-saved registers into a global."""
import random


def gen(seed):
    rng = random.Random(seed)
    mul, add = rng.choice([7, 13, 31, 101]), rng.randrange(256)
    src = f'''#![allow(dead_code, unused)]
use std::arch::asm;
use std::sync::atomic::{{AtomicU64, Ordering::SeqCst}};
extern "C" {{
    fn mmap(addr: *mut u8, len: usize, prot: i32, flags: i32, fd: i32, off: i64) -> *mut u8;
    fn munmap(addr: *mut u8, len: usize) -> i32;
}}
#[no_mangle]
pub static REGION: AtomicU64 = AtomicU64::new(0);
#[no_mangle]
pub static PROBE: [AtomicU64; 8] = [const {{ AtomicU64::new(0) }}; 8];
#[no_mangle]
pub static mut GUARD_LO: u64 = 0x1111111111111111;
#[no_mangle]
pub static mut TARGET: [u8; 24] = [0xAB; 24];
#[no_mangle]
pub static mut GUARD_HI: u64 = 0x2222222222222222;
const PAGE: usize = 4096;
#[inline(never)]
fn stop_here(step: u64) -> u64 {{
    let s = step.wrapping_mul(3);
    s ^ 0x55
}}
#[inline(never)]
fn probe() {{
    let p = PROBE.as_ptr() as *mut u64;
    unsafe {{
        asm!("mov [{{p}}], rbx", "mov [{{p}} + 8], r12", "mov [{{p}} + 16], r13", "mov [{{p}} + 24], r14", "mov [{{p}} + 32], r15", "nop", p = in(reg) p);
    }}
}}
fn main() {{
    let base = unsafe {{ mmap(std::ptr::null_mut(), 4 * PAGE, 3, 0x22, -1, 0) }};
    let rw = unsafe {{ std::slice::from_raw_parts_mut(base.add(PAGE), 2 * PAGE) }};
    let mut i = 0usize;
    while i < rw.len() {{ rw[i] = (i.wrapping_mul({mul}).wrapping_add({add})) as u8; i += 1; }}
    unsafe {{ munmap(base, PAGE); munmap(base.add(3 * PAGE), PAGE); }}
    REGION.store(base as u64 + PAGE as u64, SeqCst);
    let mut acc = stop_here(0);
    probe();
    acc ^= stop_here(1);
    let mut h = 0xcbf29ce484222325u64;
    for b in rw.iter() {{ h ^= *b as u64; h = h.wrapping_mul(0x100000001b3); }}
    println!("region={{:016x}}", h);
    unsafe {{
        let t = std::ptr::read_volatile(&raw const TARGET);
        println!("target={{:?}} lo={{:x}} hi={{:x}}", t, std::ptr::read_volatile(&raw const GUARD_LO), std::ptr::read_volatile(&raw const GUARD_HI));
    }}
    let mut k = 0;
    while k < 5 {{ println!("probe{{}}={{:016x}}", k, PROBE[k].load(SeqCst)); k += 1; }}
    println!("acc={{}}", acc);
}}
'''
    return src, {'mul': mul, 'add': add, 'page': 4096}
