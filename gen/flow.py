"""flow family: deterministic single-threaded control-flow programs.

Every statement is one source line, bumps the volatile global TICK and mixes into a checksum, so
that (pc, rsp, TICK) identifies a position of the execution.  The generator keeps a static cost
model so that the whole run stays below a dynamic-statement budget.

gen(seed, **opts) -> (source_text, sidecar_dict)
"""
import random

PRELUDE = '''#![allow(unused, dead_code, unused_assignments, unused_mut, static_mut_refs, unused_parens)]
use std::hint::black_box;

#[unsafe(no_mangle)]
pub static mut TICK: u64 = 0;
static mut CK: u64 = 0;

#[collapse_debuginfo(yes)]
macro_rules! tick {
    () => {
        unsafe { std::arch::asm!("add qword ptr [rip + {t}], 1", t = sym TICK, options(nostack)) }
    };
}

#[inline(never)]
fn mix(v: u64) {
    unsafe { CK = (CK ^ v).wrapping_mul(0x100000001b3).rotate_left(7) }
}

#[inline(always)]
fn ih(a: u64, b: u64) -> u64 {
    let t = a ^ (b.rotate_left(13));
    t.wrapping_mul(0x9E3779B97F4A7C15)
}

trait Shape {
    fn area(&self, k: u64) -> u64;
}
struct Sq(u64);
struct Tri(u64, u64);
impl Shape for Sq {
    #[inline(never)]
    fn area(&self, k: u64) -> u64 {
        tick!(); let a = self.0.wrapping_mul(self.0);
        tick!(); mix(a ^ k);
        a.wrapping_add(k)
    }
}
impl Shape for Tri {
    #[inline(never)]
    fn area(&self, k: u64) -> u64 {
        tick!(); let a = self.0.wrapping_mul(self.1) / 2;
        tick!(); mix(a.wrapping_add(k));
        a ^ k
    }
}

#[inline(never)]
fn gen_id<T: Copy + Into<u64>>(v: T, k: u64) -> u64 {
    tick!(); let w: u64 = v.into();
    tick!(); mix(w.wrapping_add(k));
    w.wrapping_mul(3).wrapping_add(k)
}

#[inline(never)]
fn one(v: u64) -> u64 { tick!(); v.wrapping_mul(0x2545F4914F6CDD1D) ^ 0x51 }

#[inline(never)]
fn onerec(n: u64, v: u64) -> u64 { tick!(); if n == 0 { v } else { onerec(n - 1, v.rotate_left(5) ^ n) } }

#[inline(never)]
fn apply<F: Fn(u64) -> u64>(f: F, v: u64) -> u64 {
    tick!(); let r = f(v);
    tick!(); mix(r);
    r
}
'''


class Ctx:
    def __init__(self, rng, budget):
        self.rng = rng
        self.lines = []
        self.budget = budget
        self.funcs = []       # sidecar entries
        self.cost = {}        # fn name -> estimated dynamic statements
        self.signals = False
        self.same_line_callee_lines = []   # lines that call a closure defined on the same line

    def emit(self, s):
        self.lines.append(s)
        return len(self.lines)  # 1-based line number of the emitted line


def _const(rng):
    return rng.choice([3, 5, 7, 11, 0x9E37, 0xFFFF_FFFF, 0x1234_5678_9ABC, 1, 2, 255, 65537])


def gen_body(cx, name, depth, callees, indent, max_stmts, stmt_lines, in_loop=1):
    """emit statements; returns estimated dynamic cost"""
    rng = cx.rng
    cost = 0
    n = rng.randint(2, max_stmts)
    pad = '    ' * indent
    for _ in range(n):
        k = rng.random()
        if k < 0.30 or depth >= 3:
            op = rng.choice(['x = x.wrapping_mul({c}).wrapping_add({d});', 'x ^= x >> {s};',
                             'x = x.rotate_left({s}) ^ {c};', 'x = ih(x, {c});',
                             'x = x.wrapping_sub({c}) | 1;', 'mix(x);'])
            st = op.format(c=_const(rng), d=_const(rng), s=rng.randint(1, 31))
            ln = cx.emit(f'{pad}tick!(); {st}')
            stmt_lines.append(ln)
            cost += 1
        elif k < 0.45 and callees:
            cal = rng.choice(callees)
            c = cx.cost[cal['name']]
            if c * in_loop > cx.budget // 4:
                continue
            ln = cx.emit(f"{pad}tick!(); x = x.wrapping_add({cal['call'].format(a='x ^ %d' % _const(rng))});")
            stmt_lines.append(ln)
            cost += 1 + c
        elif k < 0.60:
            ln = cx.emit(f'{pad}tick!(); if x & {1 << rng.randint(0, 5)} != 0 {{')
            stmt_lines.append(ln)
            c1 = gen_body(cx, name, depth + 1, callees, indent + 1, 3, stmt_lines, in_loop)
            cx.emit(f'{pad}}} else {{')
            c2 = gen_body(cx, name, depth + 1, callees, indent + 1, 3, stmt_lines, in_loop)
            cx.emit(f'{pad}}}')
            cost += 1 + max(c1, c2)
        elif k < 0.75:
            it = rng.randint(2, 6)
            v = f'i{depth}'
            ln = cx.emit(f'{pad}tick!(); let mut {v} = 0u32;')
            stmt_lines.append(ln)
            ln = cx.emit(f'{pad}while {v} < {it} {{')
            c1 = gen_body(cx, name, depth + 1, callees, indent + 1, 3, stmt_lines, in_loop * it)
            ln = cx.emit(f'{pad}    tick!(); {v} += 1;')
            stmt_lines.append(ln)
            cx.emit(f'{pad}}}')
            cost += 1 + it * (c1 + 1)
        elif k < 0.80:
            it = rng.randint(2, 4)
            ln = cx.emit(f'{pad}tick!(); for j{depth} in 0..{it}u64 {{')
            stmt_lines.append(ln)
            ln = cx.emit(f'{pad}    tick!(); x = x.wrapping_add(j{depth} ^ {_const(rng)});')
            stmt_lines.append(ln)
            cx.emit(f'{pad}}}')
            cost += 1 + it * 2
        elif k < 0.87:
            st = rng.choice(['x = one(x);', 'x = onerec({n}, x);', 'x = (|v: u64| {{ tick!(); v ^ {c} }})(x);',
                             'x = (|v: u64| {{ tick!(); (v >> 3) | {c} }})(x ^ 1);', 'x = one(onerec({n}, x));'])
            ln = cx.emit(f'{pad}tick!(); ' + st.format(n=rng.randint(1, 4), c=_const(rng)))
            stmt_lines.append(ln)
            if '(|v' in st:
                cx.same_line_callee_lines.append(ln)
            cost += 8
        elif k < 0.885 and cx.signals:
            ln = cx.emit(f'{pad}tick!(); sig_me(x);')
            stmt_lines.append(ln)
            cost += 30
        elif k < 0.91:
            ln = cx.emit(f'{pad}tick!(); x = apply(|v| v.wrapping_mul({_const(rng)}) ^ x, x >> 3);')
            stmt_lines.append(ln)
            cost += 5
        elif k < 0.96:
            sh = rng.choice(['&Sq(x & 0xff)', '&Tri(x & 0xf, 7)'])
            ln = cx.emit(f'{pad}tick!(); {{ let s: &dyn Shape = {sh}; x = x.wrapping_add(s.area({_const(rng)})); }}')
            stmt_lines.append(ln)
            cost += 4
        else:
            t = rng.choice(['x as u8', 'x as u16', 'x as u32'])
            ln = cx.emit(f'{pad}tick!(); x ^= gen_id({t}, {_const(rng)});')
            stmt_lines.append(ln)
            cost += 4
    return cost


SIG_PRELUDE = '''
extern "C" {
    fn raise(sig: i32) -> i32;
    fn signal(sig: i32, handler: usize) -> usize;
}
static mut SIG_SEEN: u64 = 0;
extern "C" fn on_sig(_s: i32) {
    unsafe { SIG_SEEN = SIG_SEEN.wrapping_add(1) }
}
#[inline(never)]
fn sig_me(v: u64) {
    tick!(); let which = if v & 1 == 0 { 10 } else { 12 };
    tick!(); unsafe { raise(which); }
    tick!(); mix(unsafe { SIG_SEEN });
}
'''


def gen(seed, budget=1500, nfuncs=None, rec_depth=None, signals=False):
    rng = random.Random(seed)
    cx = Ctx(rng, budget)
    cx.signals = signals
    for l in PRELUDE.rstrip('\n').split('\n'):
        cx.emit(l)
    if signals:
        for l in SIG_PRELUDE.rstrip('\n').split('\n'):
            cx.emit(l)
    cx.emit('')
    nfuncs = nfuncs or rng.randint(4, 8)
    callees = []
    # leaf-to-root order, so calls form a DAG
    for i in range(nfuncs):
        name = f'f{i}'
        cx.emit('#[inline(never)]')
        decl = cx.emit(f'fn {name}(a: u64) -> u64 {{')
        stmt_lines = []
        ln = cx.emit('    tick!(); let mut x = a;')
        stmt_lines.append(ln)
        cost = 1 + gen_body(cx, name, 0, callees, 1, 5, stmt_lines)
        ln = cx.emit('    tick!(); mix(x);')
        stmt_lines.append(ln)
        cx.emit('    x')
        end = cx.emit('}')
        cx.emit('')
        cx.cost[name] = cost + 1
        ent = {'name': name, 'kind': 'plain', 'decl_line': decl, 'end_line': end,
               'stmt_lines': stmt_lines, 'call': name + '({a})'}
        cx.funcs.append(ent)
        callees.append(ent)
    # direct recursion
    rd = rec_depth if rec_depth is not None else rng.choice([3, 6, 12, 40, 120, 300])
    cx.emit('#[inline(never)]')
    decl = cx.emit('fn rec(n: u64, acc: u64) -> u64 {')
    sl = []
    sl.append(cx.emit('    tick!(); let mut x = acc ^ n;'))
    sl.append(cx.emit('    tick!(); if n == 0 {'))
    sl.append(cx.emit('        tick!(); mix(x);'))
    sl.append(cx.emit('        tick!(); return x;'))
    cx.emit('    }')
    sl.append(cx.emit('    tick!(); let r = rec(n - 1, x.wrapping_mul(31));'))
    sl.append(cx.emit('    tick!(); x = x.wrapping_add(r);'))
    sl.append(cx.emit('    tick!(); mix(x);'))
    cx.emit('    x')
    end = cx.emit('}')
    cx.emit('')
    cx.cost['rec'] = 6 * (rd + 1)
    rec_ent = {'name': 'rec', 'kind': 'recursive', 'decl_line': decl, 'end_line': end,
               'stmt_lines': sl, 'call': f'rec({rd}, {{a}})', 'depth': rd, 'rec_call_line': sl[4]}
    cx.funcs.append(rec_ent)
    # mutual recursion
    md = rng.choice([2, 5, 9])
    cx.emit('#[inline(never)]')
    decl = cx.emit('fn ping(n: u64, acc: u64) -> u64 {')
    sl = []
    sl.append(cx.emit('    tick!(); let x = acc.wrapping_add(n);'))
    sl.append(cx.emit('    tick!(); if n == 0 { return x; }'))
    sl.append(cx.emit('    tick!(); let r = pong(n - 1, x ^ 0x55);'))
    sl.append(cx.emit('    tick!(); mix(r);'))
    cx.emit('    r.wrapping_add(1)')
    end = cx.emit('}')
    cx.funcs.append({'name': 'ping', 'kind': 'mutual', 'decl_line': decl, 'end_line': end, 'stmt_lines': sl})
    cx.emit('#[inline(never)]')
    decl = cx.emit('fn pong(n: u64, acc: u64) -> u64 {')
    sl = []
    sl.append(cx.emit('    tick!(); let x = acc.rotate_left(3);'))
    sl.append(cx.emit('    tick!(); if n == 0 { return x; }'))
    sl.append(cx.emit('    tick!(); let r = ping(n - 1, x | 2);'))
    sl.append(cx.emit('    tick!(); mix(r);'))
    cx.emit('    r ^ 9')
    end = cx.emit('}')
    cx.emit('')
    cx.funcs.append({'name': 'pong', 'kind': 'mutual', 'decl_line': decl, 'end_line': end, 'stmt_lines': sl})
    cx.cost['ping'] = 5 * (md + 1)
    # main
    decl = cx.emit('fn main() {')
    sl = []
    if signals:
        sl.append(cx.emit('    tick!(); unsafe { signal(10, on_sig as usize); signal(12, on_sig as usize); }'))
    sl.append(cx.emit(f'    tick!(); let mut x: u64 = black_box({rng.randint(1, 1 << 40)});'))
    total = 0
    order = list(cx.funcs[:nfuncs])
    rng.shuffle(order)
    if signals:
        sl.append(cx.emit('    tick!(); sig_me(x);'))
    for ent in order:
        c = cx.cost[ent['name']]
        if total + c > budget:
            continue
        total += c
        sl.append(cx.emit(f"    tick!(); x = x.wrapping_add({ent['call'].format(a='x')});"))
    ln = cx.emit('    tick!(); x = (|v: u64| { tick!(); v ^ 0x5a5a })(x);')
    sl.append(ln)
    cx.same_line_callee_lines.append(ln)
    sl.append(cx.emit(f"    tick!(); x ^= {rec_ent['call'].format(a='x')};"))
    sl.append(cx.emit(f'    tick!(); x ^= ping({md}, x);'))
    sl.append(cx.emit('    tick!(); mix(x);'))
    sl.append(cx.emit('    tick!(); let ck = unsafe { CK };'))
    sl.append(cx.emit('    tick!(); println!("ck={:016x} x={:016x}", ck, x);'))
    sl.append(cx.emit('    tick!(); std::process::exit((ck % 7) as i32 + 3);'))
    end = cx.emit('}')
    cx.funcs.append({'name': 'main', 'kind': 'main', 'decl_line': decl, 'end_line': end, 'stmt_lines': sl})
    src = '\n'.join(cx.lines) + '\n'
    side = {'family': 'flow', 'seed': seed, 'funcs': cx.funcs, 'rec_depth': rd, 'mutual_depth': md,
            'est_cost': total + cx.cost['rec'] + cx.cost['ping'],
            'prelude_funcs': ['mix', 'gen_id', 'apply', 'area', 'one', 'onerec'], 'signals': signals,
            'same_line_callee_lines': cx.same_line_callee_lines}
    return src, side


if __name__ == '__main__':
    import sys, json
    s, side = gen(int(sys.argv[1]) if len(sys.argv) > 1 else 1)
    print(s)
    print(json.dumps(side)[:300], file=sys.stderr)
