"""Data query expressions: (1) random AST + canonical printer for the parse round trip,
(2) type-directed expressions over a vals program with the expected result from a small model of the
documented operators."""
import json

IDENTS = ['a', 'x1', 'some_var', 'v', 'foo::bar', 'ns1::ns2::item', '::root', 'A', '_u', 'vec_1', 'r#type'.replace('r#', 'rt_')]
FIELDS = ['f', 'field_1', 'len', 'buf', '0', '1', '17', '__0', 'inner']
TYPES = ['*const i32', '*mut SomeType', '&u32', '*const abc::def::T', 'Vec<u8>', '*const Option<&str>', "&'static str", 'HashMap<i32, u8>', '*const {closure#0}']


def rnd_lit(rng, depth=0):
    k = rng.random()
    if k < 0.25:
        v = rng.choice([0, 1, 7, 42, 255, 65536, 2 ** 31, 2 ** 63 - 1, rng.randint(0, 10 ** 9)])
        if rng.random() < 0.3:
            v = -v
        return {'l': 'int', 'v': str(v)}
    if k < 0.35:
        i, f = rng.choice(['0', '1', '12', '123456']), rng.choice(['0', '5', '25', '001', '999'])
        neg = rng.random() < 0.3
        txt = ('-' if neg else '') + i + '.' + f
        return {'l': 'float', 'txt': txt}
    if k < 0.5:
        s = rng.choice(['', 'abc', 'hello world', 'with.dots', 'k-1', 'ünï', 'a[0]', '{x}', '1..2'])
        return {'l': 'str', 'v': s, 'q': rng.choice(['"', "'"])}
    if k < 0.58:
        return {'l': 'bool', 'v': rng.random() < 0.5}
    if k < 0.66:
        return {'l': 'addr', 'v': str(rng.choice([0, 1, 0x1234, 0x7fffffffe000, 0xffffffffffffffff, rng.randint(0, 2 ** 48)]))}
    if k < 0.78 or depth >= 2:
        name = rng.choice(['Some', 'None', 'A', 'Variant1', 'ns::E::V', 'Ok', 'Err'])
        p = rnd_lit(rng, depth + 1) if (rng.random() < 0.5 and depth < 2) else None
        return {'l': 'enum', 'name': name, 'p': p}
    if k < 0.9:
        n = rng.randint(0, 3)
        return {'l': 'array', 'items': [({'l': 'wild'} if rng.random() < 0.25 else rnd_lit(rng, depth + 1)) for _ in range(n)]}
    n = rng.randint(1, 3)
    keys = rng.sample(['a', 'b', 'field_x', 'k1', 'z'], n)
    return {'l': 'assoc', 'items': sorted([[k_, ({'l': 'wild'} if rng.random() < 0.25 else rnd_lit(rng, depth + 1))] for k_ in keys])}


def lit_text(l, rng):
    sp = lambda: rng.choice(['', '', ' '])  # noqa: E731
    k = l['l']
    if k == 'int':
        return l['v']
    if k == 'float':
        return l['txt']
    if k == 'str':
        return l['q'] + l['v'] + l['q']
    if k == 'bool':
        return 'true' if l['v'] else 'false'
    if k == 'addr':
        return rng.choice(['0x', '0X']) + ('%x' % int(l['v']) if rng.random() < 0.5 else '%X' % int(l['v']))
    if k == 'enum':
        return l['name'] + ('' if l['p'] is None else '(' + sp() + lit_text(l['p'], rng) + sp() + ')')
    if k == 'wild':
        return '*'
    if k == 'array':
        return '{' + sp() + (',' + sp()).join(lit_text(x, rng) for x in l['items']) + sp() + '}'
    if k == 'assoc':
        return '{' + sp() + (',' + sp()).join(f'{k_}{sp()}:{sp()}{lit_text(v, rng)}' for k_, v in l['items']) + sp() + '}'
    raise AssertionError(k)


def lit_expected(l):
    """JSON that bsmon's lower::lit_json produces for the literal"""
    k = l['l']
    if k == 'int':
        return {'l': 'int', 'v': l['v']}
    if k == 'float':
        import struct
        bits = struct.unpack('<Q', struct.pack('<d', float(l['txt'])))[0]
        return {'l': 'float', 'bits': str(bits)}
    if k == 'str':
        return {'l': 'str', 'v': l['v']}
    if k == 'bool':
        return {'l': 'bool', 'v': l['v']}
    if k == 'addr':
        return {'l': 'addr', 'v': l['v']}
    if k == 'enum':
        return {'l': 'enum', 'name': l['name'], 'p': None if l['p'] is None else lit_expected(l['p'])}
    if k == 'wild':
        return {'l': 'wild'}
    if k == 'array':
        return {'l': 'array', 'items': [lit_expected(x) for x in l['items']]}
    if k == 'assoc':
        return {'l': 'assoc', 'items': [[k_, lit_expected(v)] for k_, v in l['items']]}


def rnd_ast(rng, depth):
    """random Dqe tree in the JSON shape of lower::dqe_json"""
    if depth <= 0 or rng.random() < 0.15:
        if rng.random() < 0.2:
            return {'d': 'ptrcast', 'ptr': str(rng.choice([0x10, 0x7fffffffdc94, 0x123AABCD, rng.randint(1, 2 ** 47)])), 'ty': rng.choice(TYPES)}
        return {'d': 'var', 'name': rng.choice(IDENTS), 'local_only': False}
    k = rng.random()
    e = rnd_ast(rng, depth - 1)
    if k < 0.22:
        return {'d': 'field', 'e': e, 'f': rng.choice(FIELDS)}
    if k < 0.44:
        return {'d': 'index', 'e': e, 'i': rnd_lit(rng)}
    if k < 0.58:
        l = rng.choice([None, '0', '1', '10'])
        r = rng.choice([None, '0', '3', '200'])
        return {'d': 'slice', 'e': e, 'l': l, 'r': r}
    if k < 0.74:
        return {'d': 'deref', 'e': e}
    if k < 0.88:
        return {'d': 'addr', 'e': e}
    return {'d': 'canonic', 'e': e}


def expected_json(a):
    d = a['d']
    if d in ('var', 'ptrcast'):
        return dict(a)
    if d == 'field':
        return {'d': 'field', 'e': expected_json(a['e']), 'f': a['f']}
    if d == 'index':
        return {'d': 'index', 'e': expected_json(a['e']), 'i': lit_expected(a['i'])}
    if d == 'slice':
        return {'d': 'slice', 'e': expected_json(a['e']), 'l': a['l'], 'r': a['r']}
    return {'d': d, 'e': expected_json(a['e'])}


PREFIX = {'deref': '*', 'addr': '&', 'canonic': '~'}


def text(a, rng, top=True):
    """canonical text with random extra whitespace and redundant parentheses"""
    sp = lambda: rng.choice(['', '', '', ' '])  # noqa: E731
    d = a['d']

    def paren_if_prefix(e):
        t = text(e, rng, False)
        if e['d'] in PREFIX:
            return '(' + sp() + t + sp() + ')'
        if rng.random() < 0.08:
            return '(' + t + ')'
        return t
    if d == 'var':
        return sp() + a['name'] + sp()
    if d == 'ptrcast':
        return '(' + sp() + a['ty'] + sp() + ')' + sp() + '0x%X' % int(a['ptr'])
    if d == 'field':
        return paren_if_prefix(a['e']) + sp() + '.' + sp() + a['f']
    if d == 'index':
        return paren_if_prefix(a['e']) + sp() + '[' + sp() + lit_text(a['i'], rng) + sp() + ']'
    if d == 'slice':
        return paren_if_prefix(a['e']) + sp() + '[' + sp() + (a['l'] or '') + sp() + '..' + sp() + (a['r'] or '') + sp() + ']'
    inner = text(a['e'], rng, False)
    if rng.random() < 0.08:
        inner = '(' + inner + ')'
    return PREFIX[d] + sp() + inner


# ------------------------------------------------------------------------------------------
# typed expressions over a vals program

NORESULT = '<no result>'


def _scalar_lit(t, truth):
    k = t['k']
    if k == 'int':
        v = int(truth['i'])
        return str(v) if -2 ** 63 < v < 2 ** 63 else None
    if k == 'bool':
        return 'true' if truth else 'false'
    if k in ('string', 'str'):
        s = bytes.fromhex(truth['p']['str'] if 'p' in truth else truth['str']).decode()
        if '"' in s or '\x00' in s or '\\' in s:
            return None
        return '"' + s + '"'
    if k == 'char':
        c = chr(truth['c'])
        if c in '"\'\\' or ord(c) < 32:
            return None
        return '"' + c + '"'
    if k == 'cenum':
        return truth['v']
    return None


def key_pattern(t, truth, rng, wild_p=0.3):
    """pattern selecting the key `truth` of type t: ('lit', text, truth) | ('wild',) | ('tuple', [..]) |
    ('struct', [(name, pat)..]); None when not expressible"""
    k = t['k']
    if k == 'tuple':
        parts = []
        for it, tv in zip(t['items'], truth['t']):
            if rng.random() < wild_p:
                parts.append(('wild',))
            else:
                p = key_pattern(it, tv, rng, wild_p)
                if p is None:
                    return None
                parts.append(p)
        return ('tuple', parts)
    if k == 'struct':
        fields = []
        tv = dict(truth['f'])
        for fname, ft in t['fields']:
            if rng.random() < wild_p:
                fields.append((fname, ('wild',)))
            else:
                p = key_pattern(ft, tv[fname], rng, wild_p)
                if p is None:
                    return None
                fields.append((fname, p))
        if rng.random() < 0.5:
            rng.shuffle(fields)
        return ('struct', fields)
    s = _scalar_lit(t, truth)
    if s is None:
        return None
    return ('lit', s, truth)


def pattern_text(p):
    if p[0] == 'wild':
        return '*'
    if p[0] == 'lit':
        return p[1]
    if p[0] == 'tuple':
        return '{' + ', '.join(pattern_text(x) for x in p[1]) + '}'
    return '{' + ', '.join(f'{n}: {pattern_text(x)}' for n, x in p[1]) + '}'


def pattern_has_wild(p):
    if p[0] == 'wild':
        return True
    if p[0] == 'lit':
        return False
    if p[0] == 'tuple':
        return any(pattern_has_wild(x) for x in p[1])
    return any(pattern_has_wild(x) for _, x in p[1])


def pattern_matches(p, truth):
    if p[0] == 'wild':
        return True
    if p[0] == 'lit':
        return p[2] == truth
    if p[0] == 'tuple':
        return len(p[1]) == len(truth['t']) and all(pattern_matches(x, tv) for x, tv in zip(p[1], truth['t']))
    tv = dict(truth['f'])
    return all(pattern_matches(x, tv[n]) for n, x in p[1])


def typed_exprs(var, truth, rng, n=6):
    """list of (text, expected truth or NORESULT, kind tag)"""
    out = []
    name = var['name']
    t = var['type']
    k = t['k']

    def add(txt, exp, tag):
        out.append((txt, exp, tag))
    # identity and address/deref round trip
    add(name, truth, 'var')
    add(f'*&{name}', truth, 'deref-addr')
    add(f'*(&{name})', truth, 'deref-addr')
    if k in ('box', 'rc', 'arc', 'rawptr', 'ref'):
        if k == 'ref' and not (isinstance(truth, dict) and 'p' in truth and 'e' not in truth):
            add(f'*{name}', truth, 'deref')
        else:
            add(f'*{name}', truth['p'], 'deref')
    if k in ('int', 'bool', 'char', 'float'):
        add(f'*{name}', NORESULT, 'na-deref-scalar')
        add(f'{name}[0]', NORESULT, 'na-index-scalar')
        add(f'{name}.f0', NORESULT, 'na-field-scalar')
        add(f'{name}[0..1]', NORESULT, 'na-slice-scalar')
    if k == 'struct':
        for fname, ft in t['fields']:
            tv = dict(truth['f'])[fname]
            add(f'{name}.{fname}', tv, 'field')
            add(f'(*&{name}).{fname}', tv, 'field-after-deref-addr')
        add(f'{name}.no_such_field_zq', NORESULT, 'na-missing-field')
        add(f'{name}[1]', NORESULT, 'na-index-struct')
        add(f'{name}[0..1]', NORESULT, 'na-slice-struct')
    if k in ('array', 'vec', 'vecdeque'):
        items = truth['a']
        ln = len(items)
        for i in sorted({0, ln - 1, ln // 2, rng.randrange(ln) if ln else 0}):
            if 0 <= i < ln:
                add(f'{name}[{i}]', items[i], 'index')
        add(f'{name}[{ln}]', NORESULT, 'na-index-out-of-range')
        add(f'{name}[{ln + 7}]', NORESULT, 'na-index-out-of-range')
        add(f'{name}.f0', NORESULT, 'na-field-seq')
        if ln >= 1:
            lo = rng.randrange(ln)
            hi = rng.randint(lo, ln)
            add(f'{name}[{lo}..{hi}]', {'a': items[lo:hi]}, 'slice')
            add(f'{name}[..{hi}]', {'a': items[:hi]}, 'slice-open-left')
            add(f'{name}[{lo}..]', {'a': items[lo:]}, 'slice-open-right')
            if hi - lo >= 1:
                j = rng.randrange(hi - lo)
                add(f'{name}[{lo}..{hi}][{j}]', items[lo + j], 'index-after-slice')
        if k == 'vec':
            add(f'(~{name}).len', {'i': str(ln)}, 'canonic-len')
    if k in ('hashmap', 'btreemap'):
        kv = truth['m']
        for kt, vt in (rng.sample(kv, min(3, len(kv))) if kv else []):
            pat = key_pattern(t['key'], kt, rng)
            if pat is None:
                continue
            lit = pattern_text(pat)
            if pattern_has_wild(pat):
                # a wildcard key may match several entries: the result must be the value of one matching entry
                cands = [v2 for k2, v2 in kv if pattern_matches(pat, k2)]
                add(f'{name}[{lit}]', ('any-of', cands), 'map-key-wildcard')
            else:
                add(f'{name}[{lit}]', vt, 'map-key')
        if t['key']['k'] in ('tuple', 'struct') and kv:
            # a pattern that fixes one component to a value no key has must select nothing
            kt, _ = rng.choice(kv)
            pat = key_pattern(t['key'], kt, rng, wild_p=0.5)
            if pat is not None:
                bad = _poison(pat, rng)
                if bad is not None and not any(pattern_matches(bad, k2) for k2, _ in kv):
                    add(f'{name}[{pattern_text(bad)}]', NORESULT, 'na-no-key-matches-pattern')
        if t['key']['k'] == 'int':
            present = {int(k2['i']) for k2, _ in kv}
            for cand in (123456789, -77, 31337):
                lo_, hi_ = -2 ** 63, 2 ** 63
                if cand not in present:
                    add(f'{name}[{cand}]', NORESULT, 'na-absent-key')
                    break
        add(f'{name}[0..1]', NORESULT, 'na-slice-map')
    if k in ('hashset', 'btreeset'):
        items = truth['set']
        for it in (rng.sample(items, min(2, len(items))) if items else []):
            pat = key_pattern(t['inner'], it, rng, wild_p=0.2)
            if pat is None:
                continue
            add(f'{name}[{pattern_text(pat)}]', True, 'set-member')
        if t['inner']['k'] == 'int':
            present = {int(x['i']) for x in items}
            for cand in (123456789, -77, 31337):
                if cand not in present:
                    add(f'{name}[{cand}]', False, 'set-non-member')
                    break
    rng.shuffle(out)
    keep = [o for o in out if o[2].startswith('na-')][:2] + [o for o in out if not o[2].startswith('na-')][:n]
    return keep


def _poison(pat, rng):
    """copy of the pattern with the LAST literal component replaced by a value that is unlikely to exist"""
    if pat[0] == 'lit':
        t = pat[1]
        if t.startswith('"'):
            return ('lit', '"zq_no_such_key"', {'str': 'zz'})
        if t in ('true', 'false'):
            return None
        if t.lstrip('-').isdigit():
            return ('lit', str(int(t) // 2 + 987654321), {'i': 'x'})
        return None
    if pat[0] == 'tuple':
        items = list(pat[1])
        for i in range(len(items) - 1, -1, -1):
            if items[i][0] != 'wild':
                b = _poison(items[i], rng)
                if b is None:
                    return None
                items[i] = b
                return ('tuple', items)
        return None
    if pat[0] == 'struct':
        fields = list(pat[1])
        for i in range(len(fields) - 1, -1, -1):
            if fields[i][1][0] != 'wild':
                b = _poison(fields[i][1], rng)
                if b is None:
                    return None
                fields[i] = (fields[i][0], b)
                return ('struct', fields)
        return None
    return None
