"""scope family: nested blocks, shadowing, sibling blocks, variables declared after a marker, recursion with
per-activation values. Every marker call `marker(id)` has a ground-truth record: the bindings that are in scope
at that point of the enclosing function (name -> value, innermost binding of a shadowed name), the names that
are declared later or in sibling blocks (must not be listed), and for recursion the per-activation values."""
import random

M64 = (1 << 64) - 1


def gen(seed, depth_rec=6):
    rng = random.Random(seed)
    lines = []
    markers = {}
    mid = [0]

    def emit(s):
        lines.append(s)
        return len(lines)

    emit('#![allow(dead_code, unused)]')
    emit('#[no_mangle]')
    emit('pub static mut SINK: u64 = 0;')
    emit('#[inline(never)]')
    emit('fn marker(id: u64) -> u64 {')
    side_marker_line = emit('    unsafe { std::ptr::write_volatile(&raw mut SINK, id) };')
    emit('    id')
    emit('}')
    emit('#[inline(never)]')
    emit('fn keep(v: u64) { unsafe { std::ptr::write_volatile(&raw mut SINK, v) }; }')

    all_names = ['x', 'y', 'z', 'w', 'p', 'q', 'late', 'u']

    def gen_fn(fname, arg_val):
        """returns nothing; appends the function text; records markers"""
        emit('#[inline(never)]')
        emit(f'fn {fname}(a: u64) -> u64 {{')
        declared_anywhere = set()
        scope_stack = [[('a', arg_val)]]    # list of scopes, each a list of (name, value) in declaration order
        fn_markers = []

        def visible():
            out = {}
            order = []
            for sc in scope_stack:
                for n, val in sc:
                    out[n] = val
                    order.append((n, val))
            return out, order

        def place_marker(ind):
            mid[0] += 1
            vis, order = visible()
            line = emit(' ' * ind + f'marker({mid[0]});')
            rec = {'fn': fname, 'line': line, 'visible': dict(vis), 'all_bindings': [[n, val] for n, val in order]}
            markers[mid[0]] = rec
            fn_markers.append(rec)

        def new_let(ind, names):
            vis, _ = visible()
            name = rng.choice(names)
            src = rng.choice(sorted(vis))
            k = rng.randint(2, 99)
            op = rng.choice(['+', '*', '^'])
            val = {'+': (vis[src] + k) & M64, '*': (vis[src] * k) & M64, '^': vis[src] ^ k}[op]
            fn = {'+': 'wrapping_add', '*': 'wrapping_mul'}.get(op)
            expr = f'{src}.{fn}({k})' if fn else f'{src} ^ {k}'
            emit(' ' * ind + f'let {name} = {expr};')
            scope_stack[-1].append((name, val))
            declared_anywhere.add(name)
            return name

        def block(ind, depth):
            n_stmts = rng.randint(2, 4)
            for _ in range(n_stmts):
                k = rng.random()
                if k < 0.45:
                    new_let(ind, all_names)
                    place_marker(ind)
                elif k < 0.75 and depth < 3:
                    emit(' ' * ind + '{')
                    scope_stack.append([])
                    block(ind + 4, depth + 1)
                    # keep the block's variables alive up to its end
                    for n, _v in scope_stack[-1][-2:]:
                        emit(' ' * (ind + 4) + f'keep({n});')
                    scope_stack.pop()
                    emit(' ' * ind + '}')
                    place_marker(ind)
                else:
                    place_marker(ind)
        new_let(4, ['x'])
        place_marker(4)
        block(4, 0)
        vis, _ = visible()
        last = sorted(vis)[-1]
        emit('    ' + ' ^ '.join(sorted(vis)))
        emit('}')
        for rec in fn_markers:
            rec['must_not_list'] = sorted(declared_anywhere - set(rec['visible']))
        return vis

    results = []
    nfn = 3
    for i in range(nfn):
        gen_fn(f'scopes{i}', 10 + i * 7)
    # recursion: per-activation values
    emit('#[inline(never)]')
    emit('fn rec(depth: u64, acc: u64) -> u64 {')
    emit('    let local = depth.wrapping_mul(100).wrapping_add(7);')
    mid[0] += 1
    rec_marker = mid[0]
    rec_line = emit(f'    marker({rec_marker} + depth);')
    emit('    if depth == 0 {')
    emit('        return acc.wrapping_add(local);')
    emit('    }')
    emit('    rec(depth - 1, acc.wrapping_mul(3).wrapping_add(depth)).wrapping_add(local)')
    emit('}')
    acc0 = rng.randint(1, 50)
    emit('fn main() {')
    emit('    let mut s = 0u64;')
    for i in range(nfn):
        emit(f'    s ^= scopes{i}({10 + i * 7});')
    emit(f'    s ^= rec({depth_rec}, {acc0});')
    emit('    println!("{:016x}", s);')
    emit('}')
    # activations of rec, outermost first
    acts = []
    acc = acc0
    for d in range(depth_rec, -1, -1):
        acts.append({'depth': d, 'acc': acc, 'local': (d * 100 + 7) & M64})
        acc = (acc * 3 + d) & M64
    side = {'markers': {str(k): v for k, v in markers.items()}, 'marker_line': side_marker_line, 'rec': {'first_marker': rec_marker, 'line': rec_line,
            'activations': acts, 'depth': depth_rec}, 'names': all_names}
    return '\n'.join(lines) + '\n', side
