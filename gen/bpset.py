"""bpset family (DAP breakpoint sets): a deterministic single-threaded program whose breakpoint-relevant events
per loop iteration are known: entry instruction of fa/fb, first body line of fa/fb/gen (function breakpoints land
there), a later body line in each (source breakpoints), three instantiations of the generic function, and one
inlined helper used from the loop. The loop publishes its iteration number and parity in two globals (ZQ_ITER,
ZQ_FLAG) that conditions and log messages can name from any frame."""


def gen(seed, iters=6):
    L = []
    e = L.append
    e('#![allow(dead_code, unused)]')
    e('#[no_mangle] pub static mut ZQ_FLAG: bool = false;')
    e('#[no_mangle] pub static mut ZQ_ITER: u64 = 0;')
    lines = {}
    for name in ('fa', 'fb'):
        e('#[inline(never)]')
        e(f'fn {name}(i: u64, flag: bool) -> u64 {{')
        e('    let z = i ^ 1;')
        lines['F0_' + name] = len(L)
        e('    let r = z.wrapping_add(i);')
        lines['L_' + name] = len(L)
        e('    r.wrapping_mul(3)')
        e('}')
    e('#[inline(never)]')
    e('fn gen<T: Into<u64> + Copy>(t: T, flag: bool) -> u64 {')
    e('    let z: u64 = t.into();')
    lines['F0_gen'] = len(L)
    e('    let r = z.wrapping_add(3);')
    lines['L_gen'] = len(L)
    e('    r ^ 7')
    e('}')
    e('#[inline(always)]')
    e('fn inl(i: u64) -> u64 {')
    e('    let q = i ^ 9;')
    lines['L_inl'] = len(L)
    e('    q.wrapping_add(1)')
    e('}')
    e('#[inline(never)]')
    e('fn keep(p: *mut u64) -> u64 { unsafe { std::ptr::read_volatile(p) } }')
    e('#[inline(never)]')
    e('fn sv(i: u64) -> u64 {')
    e('    let mut z = i ^ 1;')
    e('    let p = &mut z as *mut u64;')
    e('    keep(p);')
    lines['L_sv'] = len(L)
    e('    let r = unsafe { std::ptr::read_volatile(p) }.wrapping_add(i);')
    e('    r.wrapping_mul(3)')
    e('}')
    e('// a comment block without code')
    e('//')
    e('//')
    lines['nocode'] = len(L) - 1
    e('fn main() {')
    e('    let mut acc = sv(5);')
    e('    let mut i = 0u64;')
    e(f'    while i < {iters} {{')
    e('        let flag = i % 2 == 0;')
    e('        unsafe { std::ptr::write_volatile(&raw mut ZQ_FLAG, flag); std::ptr::write_volatile(&raw mut ZQ_ITER, i); }')
    e('        acc = acc.wrapping_add(fa(i, flag));')
    e('        acc = acc.wrapping_add(fb(i, flag));')
    e('        acc = acc.wrapping_add(gen(i as u8, flag));')
    e('        acc = acc.wrapping_add(gen(i as u16, flag));')
    e('        acc = acc.wrapping_add(gen(i as u32, flag));')
    e('        acc = acc.wrapping_add(inl(i));')
    e('        i += 1;')
    e('    }')
    e('    println!("acc={}", acc);')
    e('}')
    # events of one iteration, in execution order
    order = ['I_fa', 'F_fa', 'L_fa', 'I_fb', 'F_fb', 'L_fb', 'F_gen', 'L_gen', 'F_gen', 'L_gen', 'F_gen', 'L_gen', 'L_inl']
    # `sv` runs once before the loop
    side = {'lines': lines, 'iters': iters, 'order': order, 'prefix': ['L_sv']}
    return '\n'.join(L) + '\n', side
