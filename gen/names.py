"""names family: module and file trees with colliding and near-miss names, generics with several
instantiations, unique tokens (zq_*) so that nothing in std can match."""
import random


def gen(seed):
    rng = random.Random(seed)
    files = {}
    side = {'funcs': [], 'files': []}
    body_line = {}

    def fn(name, k, generic=False):
        if generic:
            return (f'#[inline(never)]\npub fn {name}<T: Copy + Into<u64>>(t: T) -> u64 {{\n'
                    f'    let v: u64 = t.into();\n    v.wrapping_mul({k}) ^ {k}\n}}\n')
        return f'#[inline(never)]\npub fn {name}(x: u64) -> u64 {{\n    let v = x.wrapping_add({k});\n    v.rotate_left(3) ^ {k}\n}}\n'

    # external files: identical layout so that the same line number has code in each of them
    ext = ['zq_dir/zq_file.rs', 'zq_xdir/zq_file.rs', 'zq_dir/zq_xfile.rs', 'zq_dir/zq_sub/zq_file.rs', 'zq_file.rs']
    main = ['#![allow(dead_code, unused)]']
    calls = []
    for i, path in enumerate(ext):
        mod = f'zq_ext{i}'
        files[path] = f'// external module {i}\n' + fn('zq_in_file', 100 + i)
        main.append(f'#[path = "{path}"]\npub mod {mod};')
        calls.append(f'{mod}::zq_in_file(s)')
        side['files'].append({'path': path, 'mod': mod, 'fn_line': 3, 'body_line': 4})
        side['funcs'].append({'path': [mod, 'zq_in_file'], 'generic': False})
    # module tree in the main file
    tree = [
        (['zq_a', 'zq_b'], ['zq_f', 'zq_ff', 'zq_g']),
        (['zq_a', 'zq_xb'], ['zq_f']),
        (['zq_a'], ['zq_f', 'zq_b_f']),
        (['zq_b'], ['zq_f', 'zq_xf']),
        (['zq_xa', 'zq_b'], ['zq_f']),
        (['zq_a', 'zq_b', 'zq_a', 'zq_b'], ['zq_f']),
        ([], ['zq_f', 'zq_top']),
    ]
    # build nested module text
    class Node:
        def __init__(self):
            self.kids = {}
            self.fns = []
    root = Node()
    k = 7
    for mods, fns in tree:
        n = root
        for m in mods:
            n = n.kids.setdefault(m, Node())
        for f in fns:
            k += 6
            n.fns.append((f, k))
            side['funcs'].append({'path': mods + [f], 'generic': False})
            calls.append('::'.join(['crate'] + mods + [f]) + '(s)')
    # generics: three instantiations each
    for mods, f in ((['zq_a', 'zq_b'], 'zq_gen'), (['zq_gm'], 'zq_gen'), ([], 'zq_gen2')):
        n = root
        for m in mods:
            n = n.kids.setdefault(m, Node())
        k += 6
        n.fns.append((f, -k))
        side['funcs'].append({'path': mods + [f], 'generic': True, 'instances': 3})
        p = '::'.join(['crate'] + mods + [f])
        calls += [f'{p}(s as u8)', f'{p}(s as u16)', f'{p}(s as u32)']

    def emit(n, ind):
        out = []
        for f, kk in n.fns:
            for l in fn(f, abs(kk), generic=kk < 0).splitlines():
                out.append(' ' * ind + l)
        for m, kid in n.kids.items():
            out.append(' ' * ind + f'pub mod {m} {{')
            out += emit(kid, ind + 4)
            out.append(' ' * ind + '}')
        return out
    main += emit(root, 0)
    # symbols that are not ordinary defined functions: thread-locals (STT_TLS), data objects, an exported data object
    main.append('#[allow(non_upper_case_globals)] static zq_static_plain: std::sync::atomic::AtomicU64 = std::sync::atomic::AtomicU64::new(5);')
    main.append('#[allow(non_upper_case_globals)] #[no_mangle] pub static zq_static_exported: std::sync::atomic::AtomicU64 = std::sync::atomic::AtomicU64::new(6);')
    main.append('thread_local! { #[allow(non_upper_case_globals)] static zq_tls_counter: std::cell::Cell<u64> = std::cell::Cell::new(7); }')
    main.append('thread_local! { #[allow(non_upper_case_globals)] static zq_tls_depth: std::cell::Cell<u32> = const { std::cell::Cell::new(8) }; }')
    main.append('fn main() {')
    main.append('    let mut s: u64 = std::env::args().count() as u64;')
    main.append('    s = s.wrapping_add(zq_static_plain.fetch_add(1, std::sync::atomic::Ordering::SeqCst));')
    main.append('    s = s.wrapping_add(zq_static_exported.fetch_add(1, std::sync::atomic::Ordering::SeqCst));')
    main.append('    zq_tls_counter.with(|c| c.set(c.get() + s));')
    main.append('    zq_tls_depth.with(|c| c.set(c.get() + 1));')
    main.append('    s = s.wrapping_add(zq_tls_counter.with(|c| c.get())).wrapping_add(zq_tls_depth.with(|c| c.get()) as u64);')
    rng.shuffle(calls)
    for c in calls:
        main.append(f'    s = s.wrapping_add({c});')
    main.append('    println!("{:016x}", s);')
    main.append('}')
    return '\n'.join(main) + '\n', files, side
