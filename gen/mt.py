"""mt family: N threads x W waves x K arrivals at breakpoint sites, with counters the program keeps
about itself (ground truth for C09) and optional signal handlers that count deliveries (C10).

All counters live in one `#[no_mangle] static CTR: [AtomicU64; SECTIONS*T]` so that the monitor reads them
with one /proc/pid/mem read. Section layout (each T words): TIDS, BEFORE, SITE_EXEC, ASM_EXEC, AFTER,
SIGC holds NSIG words per thread (+1 slot for the main thread) of signal-handler counters.
"""
import random

SECTIONS = ['TIDS', 'BEFORE', 'SITE_EXEC', 'ASM_EXEC', 'AFTER']
NSIG = 32


def gen(seed, n=4, waves=1, k=20, perturb=True, signals=False, wait_external=False, self_signals=(), spin=200,
        exit_code=None, panic_exit=False):
    rng = random.Random(seed)
    t_total = n * waves
    lines = []
    side = {'n': n, 'waves': waves, 'k': k, 'T': t_total, 'sections': SECTIONS, 'nsig': NSIG, 'signals': signals,
            'self_signals': list(self_signals)}

    def emit(s=''):
        lines.append(s)
        return len(lines)

    emit('#![allow(dead_code, unused)]')
    emit('use std::arch::asm;')
    emit('use std::sync::atomic::{AtomicU64, Ordering::SeqCst};')
    emit('use std::sync::Mutex;')
    emit(f'const N: usize = {n};')
    emit(f'const W: usize = {waves};')
    emit(f'const K: u64 = {k};')
    emit(f'const T: usize = {t_total};')
    emit(f'const NSIG: usize = {NSIG};')
    emit('const SECT: usize = 5;')
    emit('#[no_mangle]')
    emit('pub static CTR: [AtomicU64; SECT * T] = [const { AtomicU64::new(0) }; SECT * T];')
    emit('#[no_mangle]')
    emit('pub static SIGC: [AtomicU64; NSIG * (T + 1)] = [const { AtomicU64::new(0) }; NSIG * (T + 1)];')
    emit('#[no_mangle]')
    emit('pub static PHASE: AtomicU64 = AtomicU64::new(0);')
    emit('#[no_mangle]')
    emit('pub static GO: AtomicU64 = AtomicU64::new(0);')
    emit('static HANDLES: Mutex<Vec<std::thread::JoinHandle<u64>>> = Mutex::new(Vec::new());')
    emit('static FINISHED: AtomicU64 = AtomicU64::new(0);')
    emit('static ACC: [AtomicU64; T] = [const { AtomicU64::new(0) }; T];')
    emit('thread_local! { static MYT: std::cell::Cell<usize> = const { std::cell::Cell::new(usize::MAX) }; }')
    emit('extern "C" {')
    emit('    fn syscall(n: i64, ...) -> i64;')
    emit('    fn sigaction(sig: i32, act: *const SigAction, old: *mut SigAction) -> i32;')
    emit('    fn raise(sig: i32) -> i32;')
    emit('}')
    emit('#[repr(C)]')
    emit('struct SigAction { handler: usize, mask: [u64; 16], flags: i32, restorer: usize }')
    emit('fn gettid() -> u64 { unsafe { syscall(186) as u64 } }')
    emit('#[inline(always)] fn ctr(sec: usize, t: usize) -> &\'static AtomicU64 { &CTR[sec * T + t] }')
    emit('extern "C" fn on_signal(sig: i32) {')
    emit('    // async-signal-safe: only atomics. The receiving thread is identified by its tid.')
    emit('    let tid = gettid();')
    emit('    let mut t = 0usize;')
    emit('    while t < T { if CTR[t].load(SeqCst) == tid { break; } t += 1; }')
    emit('    SIGC[t * NSIG + (sig as usize % NSIG)].fetch_add(1, SeqCst);')
    emit('}')
    emit('fn install(sig: i32) {')
    emit('    let a = SigAction { handler: on_signal as usize, mask: [0; 16], flags: 0x10000000 /* SA_RESTART */, restorer: 0 };')
    emit('    unsafe { sigaction(sig, &a, std::ptr::null_mut()); }')
    emit('}')
    emit('#[inline(never)]')
    emit('fn site(t: usize, k: u64) -> u64 {')
    side['site_line'] = emit('    let c = ctr(2, t).fetch_add(1, SeqCst);')
    emit('    c.wrapping_mul(31) ^ k')
    emit('}')
    emit('#[inline(never)]')
    emit('fn asm_site(t: usize) {')
    emit('    let p = ctr(3, t) as *const AtomicU64 as *mut u64;')
    emit('    unsafe { asm!("lock inc qword ptr [{0}]", in(reg) p); }')
    emit('}')
    emit('#[inline(never)]')
    emit('fn perturb(x: u64) {')
    if perturb:
        emit('    match x & 7 {')
        emit('        0 | 1 => std::thread::yield_now(),')
        emit(f'        2 => {{ let mut i = 0u64; while i < (x >> 8) % {spin} {{ std::hint::spin_loop(); i += 1; }} }}')
        emit('        3 => { std::thread::yield_now(); std::thread::yield_now(); }')
        emit('        _ => {}')
        emit('    }')
    emit('}')
    emit('#[inline(never)]')
    emit('fn worker(t: usize, seed: u64) -> u64 {')
    emit('    let mut acc = 0u64;')
    emit('    let mut x = seed;')
    emit('    let mut k = 0u64;')
    emit('    while k < K {')
    emit('        x = x.wrapping_mul(6364136223846793005).wrapping_add(1442695040888963407);')
    emit('        perturb(x >> 33);')
    emit('        if k == K / 2 && t + N < T { spawn(t + N); }')
    for i, (at, sig) in enumerate(self_signals):
        emit(f'        if k == {at} && t % 2 == {i % 2} {{ unsafe {{ raise({sig}); }} }}')
    emit('        ctr(1, t).fetch_add(1, SeqCst);')
    side['call_site_line'] = emit('        acc ^= site(t, k);')
    emit('        asm_site(t);')
    emit('        ctr(4, t).fetch_add(1, SeqCst);')
    emit('        k += 1;')
    emit('    }')
    if wait_external:
        emit('    // wait until the monitor says go (signals are sent from outside meanwhile)')
        emit('    PHASE.fetch_add(1, SeqCst);')
        side['park_line'] = emit('    while GO.load(SeqCst) == 0 { std::thread::yield_now(); }')
    emit('    acc')
    emit('}')
    emit('#[inline(never)] fn t_b(t: usize, seed: u64) -> u64 { let r = worker(t, seed); r ^ 0x55 }')
    emit('#[inline(never)] fn t_a(t: usize, seed: u64) -> u64 { let r = t_b(t, seed); r.wrapping_add(7) }')
    emit('fn spawn(t: usize) {')
    emit('    let h = std::thread::spawn(move || {')
    emit('        ctr(0, t).store(gettid(), SeqCst);')
    emit('        let r = t_a(t, 0x9E3779B97F4A7C15u64.wrapping_mul(t as u64 + 1));')
    emit('        ACC[t].store(r, SeqCst);')
    emit('        FINISHED.fetch_add(1, SeqCst);')
    emit('        r')
    emit('    });')
    emit('    HANDLES.lock().unwrap().push(h);')
    emit('}')
    emit('fn main() {')
    if signals:
        for s in (10, 12, 1, 3, 15, 28, 14, 23, 17, 29, 26, 27, 2):
            emit(f'    install({s});')
    emit('    if let Ok(gate) = std::env::var("VERIF_GATE") {')
    emit('        // gate for attach scenarios: sleep-poll until the monitor creates the file')
    emit('        while !std::path::Path::new(&gate).exists() { std::thread::sleep(std::time::Duration::from_millis(3)); }')
    emit('    }')
    side['main_first_line'] = emit('    let mut i = 0;')
    emit('    while i < N { spawn(i); i += 1; }')
    emit('    loop {')
    emit('        let h = HANDLES.lock().unwrap().pop();')
    emit('        match h {')
    emit('            Some(h) => { h.join().unwrap(); }')
    emit('            None => { if FINISHED.load(SeqCst) == T as u64 { break; } std::thread::yield_now(); }')
    emit('        }')
    emit('    }')
    emit('    let mut sum = 0u64;')
    emit('    let mut t = 0;')
    emit('    while t < T {')
    emit('        sum = sum.rotate_left(5) ^ ACC[t].load(SeqCst);')
    emit('        println!("t{} before={} site={} asm={} after={}", t, ctr(1, t).load(SeqCst), ctr(2, t).load(SeqCst), ctr(3, t).load(SeqCst), ctr(4, t).load(SeqCst));')
    emit('        t += 1;')
    emit('    }')
    if signals:
        emit('    let mut s = 1;')
        emit('    while s < NSIG {')
        emit('        let mut tot = 0u64; let mut t = 0;')
        emit('        while t <= T { tot += SIGC[t * NSIG + s].load(SeqCst); t += 1; }')
        emit('        if tot > 0 { println!("sig{} handled={}", s, tot); }')
        emit('        s += 1;')
        emit('    }')
    side['final_line'] = emit('    println!("sum={:016x}", sum);')
    code = rng.choice([0, 0, 3, 7]) if exit_code is None else exit_code
    side['exit_code'] = 101 if panic_exit else code
    if panic_exit:
        emit('    if sum != 1 { panic!("generated panic exit"); }')
    emit(f'    std::process::exit({code});')
    emit('}')
    return '\n'.join(lines) + '\n', side
