"""vals family: variables drawn from a recursive type grammar, boundary-biased values, collections
built by operation histories. The program prints a canonical JSON rendering of every variable
(`CANON name=<json>`) produced by safe Rust code (trait Canon): that output, taken from a native
run, is the ground truth of "the values the program holds".

gen(seed) -> (source, sidecar) ; sidecar['vars'] = [{name, kind(local/static/tls/arg), type tree}]
"""
import random

PRELUDE = r'''#![allow(unused, dead_code, unused_mut, static_mut_refs, non_upper_case_globals, non_camel_case_types)]
use std::cell::{Cell, RefCell};
use std::collections::{BTreeMap, BTreeSet, HashMap, HashSet, VecDeque};
use std::hint::black_box;
use std::num::NonZeroU32;
use std::rc::Rc;
use std::sync::Arc;

#[unsafe(no_mangle)]
pub static mut TICK: u64 = 0;

trait Canon {
    fn canon(&self) -> String;
}
macro_rules! canon_int {
    ($($t:ty),*) => { $(impl Canon for $t { fn canon(&self) -> String { format!("{{\"i\":\"{}\"}}", self) } })* };
}
canon_int!(i8, i16, i32, i64, i128, isize, u8, u16, u32, u64, u128, usize);
impl Canon for f32 { fn canon(&self) -> String { format!("{{\"f32\":{}}}", self.to_bits()) } }
impl Canon for f64 { fn canon(&self) -> String { format!("{{\"f64\":\"{}\"}}", self.to_bits()) } }
impl Canon for bool { fn canon(&self) -> String { format!("{}", self) } }
impl Canon for char { fn canon(&self) -> String { format!("{{\"c\":{}}}", *self as u32) } }
impl Canon for () { fn canon(&self) -> String { "null".to_string() } }
impl Canon for NonZeroU32 { fn canon(&self) -> String { format!("{{\"i\":\"{}\"}}", self.get()) } }
fn hexs(s: &str) -> String { s.bytes().map(|b| format!("{:02x}", b)).collect() }
impl Canon for str { fn canon(&self) -> String { format!("{{\"str\":\"{}\"}}", hexs(self)) } }
impl Canon for String { fn canon(&self) -> String { format!("{{\"str\":\"{}\"}}", hexs(self)) } }
fn list<'a, T: Canon + 'a + ?Sized>(it: impl Iterator<Item = &'a T>) -> String {
    let v: Vec<String> = it.map(|x| x.canon()).collect();
    format!("[{}]", v.join(","))
}
impl<T: Canon> Canon for Vec<T> { fn canon(&self) -> String { format!("{{\"a\":{}}}", list(self.iter())) } }
impl<T: Canon> Canon for VecDeque<T> { fn canon(&self) -> String { format!("{{\"a\":{}}}", list(self.iter())) } }
impl<T: Canon> Canon for [T] { fn canon(&self) -> String { format!("{{\"a\":{}}}", list(self.iter())) } }
impl<T: Canon, const N: usize> Canon for [T; N] { fn canon(&self) -> String { format!("{{\"a\":{}}}", list(self.iter())) } }
impl<T: Canon> Canon for HashSet<T> { fn canon(&self) -> String { format!("{{\"set\":{}}}", list(self.iter())) } }
impl<T: Canon> Canon for BTreeSet<T> { fn canon(&self) -> String { format!("{{\"set\":{}}}", list(self.iter())) } }
impl<K: Canon, V: Canon> Canon for HashMap<K, V> {
    fn canon(&self) -> String {
        let v: Vec<String> = self.iter().map(|(k, v)| format!("[{},{}]", k.canon(), v.canon())).collect();
        format!("{{\"m\":[{}]}}", v.join(","))
    }
}
impl<K: Canon, V: Canon> Canon for BTreeMap<K, V> {
    fn canon(&self) -> String {
        let v: Vec<String> = self.iter().map(|(k, v)| format!("[{},{}]", k.canon(), v.canon())).collect();
        format!("{{\"m\":[{}]}}", v.join(","))
    }
}
impl<T: Canon> Canon for Option<T> {
    fn canon(&self) -> String {
        match self {
            Some(x) => format!("{{\"e\":\"Option\",\"v\":\"Some\",\"p\":[{}]}}", x.canon()),
            None => "{\"e\":\"Option\",\"v\":\"None\",\"p\":[]}".to_string(),
        }
    }
}
impl<T: Canon, E: Canon> Canon for Result<T, E> {
    fn canon(&self) -> String {
        match self {
            Ok(x) => format!("{{\"e\":\"Result\",\"v\":\"Ok\",\"p\":[{}]}}", x.canon()),
            Err(x) => format!("{{\"e\":\"Result\",\"v\":\"Err\",\"p\":[{}]}}", x.canon()),
        }
    }
}
impl<T: Canon + ?Sized> Canon for Box<T> { fn canon(&self) -> String { format!("{{\"p\":{}}}", (**self).canon()) } }
impl<T: Canon + ?Sized> Canon for Rc<T> { fn canon(&self) -> String { format!("{{\"p\":{}}}", (**self).canon()) } }
impl<T: Canon + ?Sized> Canon for Arc<T> { fn canon(&self) -> String { format!("{{\"p\":{}}}", (**self).canon()) } }
impl<T: Canon + ?Sized> Canon for &T { fn canon(&self) -> String { format!("{{\"p\":{}}}", (**self).canon()) } }
impl<T: Canon> Canon for *const T { fn canon(&self) -> String { format!("{{\"p\":{}}}", unsafe { (**self).canon() }) } }
impl<T: Canon + Copy> Canon for Cell<T> { fn canon(&self) -> String { format!("{{\"cell\":{}}}", self.get().canon()) } }
impl<T: Canon> Canon for RefCell<T> { fn canon(&self) -> String { format!("{{\"cell\":{}}}", self.borrow().canon()) } }
impl<A: Canon, B: Canon> Canon for (A, B) { fn canon(&self) -> String { format!("{{\"t\":[{},{}]}}", self.0.canon(), self.1.canon()) } }
impl<A: Canon, B: Canon, C: Canon> Canon for (A, B, C) {
    fn canon(&self) -> String { format!("{{\"t\":[{},{},{}]}}", self.0.canon(), self.1.canon(), self.2.canon()) }
}
'''

INTS = {'i8': (-(1 << 7), (1 << 7) - 1), 'i16': (-(1 << 15), (1 << 15) - 1), 'i32': (-(1 << 31), (1 << 31) - 1),
        'i64': (-(1 << 63), (1 << 63) - 1), 'i128': (-(1 << 127), (1 << 127) - 1), 'isize': (-(1 << 63), (1 << 63) - 1),
        'u8': (0, (1 << 8) - 1), 'u16': (0, (1 << 16) - 1), 'u32': (0, (1 << 32) - 1), 'u64': (0, (1 << 64) - 1),
        'u128': (0, (1 << 128) - 1), 'usize': (0, (1 << 64) - 1)}
STRINGS = ['', 'a', 'hello', 'zq_017', '日本語', 'tab\\there', 'a longer string with spaces and 0123456789 digits', 'ü', 'x\\u{10FFFF}y', '\\0nul']
CHARS = ["'a'", "'Z'", "'\\0'", "'\\u{10FFFF}'", "'ß'", "'\\n'", "'7'", "'\\''", "'日'"]


class G:
    def __init__(self, rng):
        self.rng = rng
        self.defs = []        # struct / enum definitions (source text)
        self.nstruct = 0
        self.nenum = 0
        self.setup = []       # statements building helper values (referents) before the variables

    # ---- scalar values
    def int_val(self, t):
        lo, hi = INTS[t]
        r = self.rng
        c = [lo, hi, 0, 1, hi - 1, lo + 1, r.randint(lo, hi), r.randint(max(lo, -1000), min(hi, 1000))]
        if lo < 0:
            c.append(-1)
        return r.choice(c)

    def int_lit(self, t, v):
        if v < 0:
            return f'({v}{t})' if v != INTS[t][0] else f'{t}::MIN'
        return f'{v}{t}'

    def float_lit(self, t):
        return self.rng.choice([f'0.0{t}', f'-0.0{t}', f'1.5{t}', f'-2.25{t}', f'{t}::NAN', f'{t}::INFINITY', f'{t}::NEG_INFINITY',
                                f'{t}::MAX', f'{t}::MIN_POSITIVE', f'{t}::EPSILON', f'3.141592653589793{t}', f'1e-30{t}',
                                f'{self.rng.uniform(-1e6, 1e6)!r}{t}'])

    # ---- types. A type is a dict {'k':..., ...}; expr(t) -> rust expression string
    def gen_type(self, depth, hashable=False, copy=False, sized=True):
        r = self.rng
        scal = ['int'] * 5 + ['bool', 'char'] + ([] if hashable else ['float', 'float', 'unit'])
        comp = ['tuple', 'struct', 'cenum', 'enum', 'option', 'array']
        heap = [] if copy else ['string', 'vec', 'vecdeque', 'hashmap', 'hashset', 'btreemap', 'btreeset', 'box', 'rc', 'arc',
                                'refcell', 'str', 'slice', 'ref']
        if not hashable and not copy:
            heap += ['cell', 'rawptr', 'result', 'niche']
        if hashable:
            heap = [] if copy else ['string', 'str']
            comp = ['tuple', 'cenum', 'option', 'array', 'hstruct', 'hstruct']
        if copy:
            comp = ['tuple', 'cenum', 'option', 'array']
        if depth <= 0:
            k = r.choice(scal + (['string', 'str'] if not copy else []))
        else:
            k = r.choice(scal + comp * 2 + heap * 2)
        if k == 'int':
            return {'k': 'int', 't': r.choice(list(INTS))}
        if k == 'float':
            return {'k': 'float', 't': r.choice(['f32', 'f64'])}
        if k in ('bool', 'char', 'unit', 'string', 'str'):
            return {'k': k}
        if k == 'tuple':
            return {'k': 'tuple', 'items': [self.gen_type(depth - 1, hashable, copy) for _ in range(r.choice([2, 2, 3]))]}
        if k == 'struct':
            n = self.nstruct
            self.nstruct += 1
            fields = [(f'f{i}', self.gen_type(depth - 1, False, copy)) for i in range(r.randint(1, 4))]
            t = {'k': 'struct', 'name': f'S{n}', 'fields': fields}
            self.emit_struct(t)
            return t
        if k == 'hstruct':
            n = self.nstruct
            self.nstruct += 1
            fields = [(f'f{i}', self.gen_type(0, True, copy)) for i in range(r.randint(2, 3))]
            t = {'k': 'struct', 'name': f'S{n}', 'fields': fields, 'hashable': True}
            self.emit_struct(t)
            return t
        if k == 'cenum':
            n = self.nenum
            self.nenum += 1
            variants = [f'V{i}' for i in range(r.randint(1, 6))]
            disc = r.choice([None, None, 'neg', 'big'])
            t = {'k': 'cenum', 'name': f'E{n}', 'variants': variants, 'disc': disc}
            self.emit_cenum(t)
            return t
        if k == 'enum':
            n = self.nenum
            self.nenum += 1
            vs = []
            for i in range(r.randint(2, 4)):
                shape = r.choice(['unit', 'tuple', 'tuple', 'struct'])
                if shape == 'unit':
                    vs.append((f'A{i}', 'unit', []))
                elif shape == 'tuple':
                    vs.append((f'A{i}', 'tuple', [self.gen_type(depth - 1, False, copy) for _ in range(r.randint(1, 2))]))
                else:
                    vs.append((f'A{i}', 'struct', [(f'g{j}', self.gen_type(depth - 1, False, copy)) for j in range(r.randint(1, 2))]))
            t = {'k': 'enum', 'name': f'E{n}', 'variants': vs}
            self.emit_enum(t)
            return t
        if k == 'option':
            return {'k': 'option', 'inner': self.gen_type(depth - 1, hashable, copy)}
        if k == 'result':
            return {'k': 'result', 'ok': self.gen_type(depth - 1), 'err': self.gen_type(depth - 1)}
        if k == 'niche':
            return {'k': 'niche', 'form': r.choice(['ref', 'box', 'nonzero', 'optoptbool', 'optchar', 'optref_str'])}
        if k == 'array':
            return {'k': 'array', 'inner': self.gen_type(depth - 1, hashable, copy), 'n': r.choice([0, 1, 2, 3, 5])}
        if k in ('vec', 'vecdeque', 'slice'):
            return {'k': k, 'inner': self.gen_type(depth - 1)}
        if k in ('hashset', 'btreeset'):
            return {'k': k, 'inner': self.gen_type(min(depth - 1, 1), hashable=True)}
        if k in ('hashmap', 'btreemap'):
            return {'k': k, 'key': self.gen_type(min(depth - 1, 1), hashable=True), 'val': self.gen_type(depth - 1)}
        if k in ('box', 'rc', 'arc', 'refcell', 'ref', 'rawptr'):
            return {'k': k, 'inner': self.gen_type(depth - 1)}
        if k == 'cell':
            return {'k': 'cell', 'inner': self.gen_type(min(depth - 1, 1), copy=True)}
        raise AssertionError(k)

    def rust_type(self, t):
        k = t['k']
        if k in ('int', 'float'):
            return t['t']
        if k == 'bool':
            return 'bool'
        if k == 'char':
            return 'char'
        if k == 'unit':
            return '()'
        if k == 'string':
            return 'String'
        if k == 'str':
            return "&'static str"
        if k == 'tuple':
            return '(' + ', '.join(self.rust_type(x) for x in t['items']) + ')'
        if k in ('struct', 'cenum', 'enum'):
            return t['name']
        if k == 'option':
            return f'Option<{self.rust_type(t["inner"])}>'
        if k == 'result':
            return f'Result<{self.rust_type(t["ok"])}, {self.rust_type(t["err"])}>'
        if k == 'niche':
            return {'ref': "Option<&'static u32>", 'box': 'Option<Box<i64>>', 'nonzero': 'Option<NonZeroU32>',
                    'optoptbool': 'Option<Option<bool>>', 'optchar': 'Option<char>', 'optref_str': "Option<&'static str>"}[t['form']]
        if k == 'array':
            return f'[{self.rust_type(t["inner"])}; {t["n"]}]'
        if k == 'slice':
            return f"&'static [{self.rust_type(t['inner'])}]"
        if k == 'vec':
            return f'Vec<{self.rust_type(t["inner"])}>'
        if k == 'vecdeque':
            return f'VecDeque<{self.rust_type(t["inner"])}>'
        if k == 'hashset':
            return f'HashSet<{self.rust_type(t["inner"])}>'
        if k == 'btreeset':
            return f'BTreeSet<{self.rust_type(t["inner"])}>'
        if k == 'hashmap':
            return f'HashMap<{self.rust_type(t["key"])}, {self.rust_type(t["val"])}>'
        if k == 'btreemap':
            return f'BTreeMap<{self.rust_type(t["key"])}, {self.rust_type(t["val"])}>'
        if k == 'box':
            return f'Box<{self.rust_type(t["inner"])}>'
        if k == 'rc':
            return f'Rc<{self.rust_type(t["inner"])}>'
        if k == 'arc':
            return f'Arc<{self.rust_type(t["inner"])}>'
        if k == 'cell':
            return f'Cell<{self.rust_type(t["inner"])}>'
        if k == 'refcell':
            return f'RefCell<{self.rust_type(t["inner"])}>'
        if k == 'ref':
            return f"&'static {self.rust_type(t['inner'])}"
        if k == 'rawptr':
            return f'*const {self.rust_type(t["inner"])}'
        raise AssertionError(k)

    def derives(self, t):
        return '#[derive(Clone, Debug)]'

    def emit_struct(self, t):
        fs = ', '.join(f'{n}: {self.rust_type(ft)}' for n, ft in t['fields'])
        canon = ','.join('[\\"%s\\",{}]' % n for n, _ in t['fields'])
        args = ', '.join(f'self.{n}.canon()' for n, _ in t['fields'])
        der = '#[derive(PartialEq, Eq, Hash, PartialOrd, Ord)] ' if t.get('hashable') else ''
        self.defs.append(f'{der}struct {t["name"]} {{ {fs} }}\n'
                         f'impl Canon for {t["name"]} {{ fn canon(&self) -> String {{ format!("{{{{\\"s\\":\\"{t["name"]}\\",\\"f\\":[{canon}]}}}}", {args}) }} }}')

    def emit_cenum(self, t):
        vs = []
        for i, v in enumerate(t['variants']):
            if t['disc'] == 'neg':
                vs.append(f'{v} = {i - 2}')
            elif t['disc'] == 'big':
                vs.append(f'{v} = {1000 + i * 77}')
            else:
                vs.append(v)
        arms = ' '.join(f'{t["name"]}::{v} => "{v}",' for v in t['variants'])
        rep = '#[repr(i32)] ' if t['disc'] else ''
        self.defs.append(f'#[derive(Clone, Copy, PartialEq, Eq, Hash, PartialOrd, Ord)] {rep}enum {t["name"]} {{ {", ".join(vs)} }}\n'
                         f'impl Canon for {t["name"]} {{ fn canon(&self) -> String {{ let v = match self {{ {arms} }}; '
                         f'format!("{{{{\\"ce\\":\\"{t["name"]}\\",\\"v\\":\\"{{}}\\"}}}}", v) }} }}')

    def emit_enum(self, t):
        vs = []
        arms = []
        for name, shape, fields in t['variants']:
            if shape == 'unit':
                vs.append(name)
                arms.append(f'{t["name"]}::{name} => format!("{{{{\\"e\\":\\"{t["name"]}\\",\\"v\\":\\"{name}\\",\\"p\\":[]}}}}"),')
            elif shape == 'tuple':
                vs.append(f'{name}({", ".join(self.rust_type(x) for x in fields)})')
                bind = ', '.join(f'x{i}' for i in range(len(fields)))
                ph = ','.join('{}' for _ in fields)
                args = ', '.join(f'x{i}.canon()' for i in range(len(fields)))
                arms.append(f'{t["name"]}::{name}({bind}) => format!("{{{{\\"e\\":\\"{t["name"]}\\",\\"v\\":\\"{name}\\",\\"p\\":[{ph}]}}}}", {args}),')
            else:
                vs.append(f'{name} {{ {", ".join(f"{n}: {self.rust_type(x)}" for n, x in fields)} }}')
                bind = ', '.join(n for n, _ in fields)
                ph = ','.join('[\\"%s\\",{}]' % n for n, _ in fields)
                args = ', '.join(f'{n}.canon()' for n, _ in fields)
                arms.append(f'{t["name"]}::{name} {{ {bind} }} => format!("{{{{\\"e\\":\\"{t["name"]}\\",\\"v\\":\\"{name}\\",\\"pf\\":[{ph}]}}}}", {args}),')
        self.defs.append(f'enum {t["name"]} {{ {", ".join(vs)} }}\n'
                         f'impl Canon for {t["name"]} {{ fn canon(&self) -> String {{ match self {{ {" ".join(arms)} }} }} }}')

    # ---- value expressions
    def leak(self, t, e):
        """'static reference to a leaked value"""
        return f'&*Box::leak(Box::new({e}))'

    def expr(self, t, depth=0):
        r = self.rng
        k = t['k']
        if k == 'int':
            return self.int_lit(t['t'], self.int_val(t['t']))
        if k == 'float':
            return self.float_lit(t['t'])
        if k == 'bool':
            return r.choice(['true', 'false'])
        if k == 'char':
            return r.choice(CHARS)
        if k == 'unit':
            return '()'
        if k == 'string':
            return f'String::from("{r.choice(STRINGS)}")'
        if k == 'str':
            return f'"{r.choice(STRINGS)}"'
        if k == 'tuple':
            return '(' + ', '.join(self.expr(x, depth + 1) for x in t['items']) + ')'
        if k == 'struct':
            return f'{t["name"]} {{ ' + ', '.join(f'{n}: {self.expr(ft, depth + 1)}' for n, ft in t['fields']) + ' }'
        if k == 'cenum':
            return f'{t["name"]}::{r.choice(t["variants"])}'
        if k == 'enum':
            name, shape, fields = r.choice(t['variants'])
            if shape == 'unit':
                return f'{t["name"]}::{name}'
            if shape == 'tuple':
                return f'{t["name"]}::{name}(' + ', '.join(self.expr(x, depth + 1) for x in fields) + ')'
            return f'{t["name"]}::{name} {{ ' + ', '.join(f'{n}: {self.expr(x, depth + 1)}' for n, x in fields) + ' }'
        if k == 'option':
            return 'None' if r.random() < 0.3 else f'Some({self.expr(t["inner"], depth + 1)})'
        if k == 'result':
            return f'Ok({self.expr(t["ok"], depth + 1)})' if r.random() < 0.5 else f'Err({self.expr(t["err"], depth + 1)})'
        if k == 'niche':
            if r.random() < 0.35:
                return 'None'
            f = t['form']
            if f == 'ref':
                return f'Some({self.leak(None, self.int_lit("u32", self.int_val("u32")))})'
            if f == 'box':
                return f'Some(Box::new({self.int_lit("i64", self.int_val("i64"))}))'
            if f == 'nonzero':
                return f'NonZeroU32::new({r.choice([1, 2, 4294967295, 77])})'
            if f == 'optoptbool':
                return r.choice(['Some(None)', 'Some(Some(true))', 'Some(Some(false))'])
            if f == 'optchar':
                return f'Some({r.choice(CHARS)})'
            return f'Some("{r.choice(STRINGS)}")'
        if k == 'array':
            return '[' + ', '.join(self.expr(t['inner'], depth + 1) for _ in range(t['n'])) + ']'
        if k == 'slice':
            n = r.choice([0, 1, 3, 6])
            return f'&*Box::leak(vec![{", ".join(self.expr(t["inner"], depth + 1) for _ in range(n))}].into_boxed_slice())'
        if k in ('vec', 'vecdeque', 'hashset', 'btreeset', 'hashmap', 'btreemap'):
            return self.collection(t, depth)
        if k == 'box':
            return f'Box::new({self.expr(t["inner"], depth + 1)})'
        if k == 'rc':
            return f'Rc::new({self.expr(t["inner"], depth + 1)})'
        if k == 'arc':
            return f'Arc::new({self.expr(t["inner"], depth + 1)})'
        if k == 'cell':
            return f'Cell::new({self.expr(t["inner"], depth + 1)})'
        if k == 'refcell':
            return f'RefCell::new({self.expr(t["inner"], depth + 1)})'
        if k == 'ref':
            return self.leak(t['inner'], self.expr(t['inner'], depth + 1))
        if k == 'rawptr':
            return f'({self.leak(t["inner"], self.expr(t["inner"], depth + 1))}) as *const {self.rust_type(t["inner"])}'
        raise AssertionError(k)

    def collection(self, t, depth):
        """block expression that builds the collection by an operation history"""
        r = self.rng
        k = t['k']
        ty = self.rust_type(t)
        big = depth == 0 and r.random() < 0.5
        n = r.choice([0, 1, 2, 5, 6, 11, 12, 13, 40, 100, 300]) if big else r.choice([0, 1, 2, 3, 5])
        if depth == 0 and getattr(self, 'force_n', None):
            n = self.force_n      # a collection of a size that needs several tree levels / table groups
        simple_key = False
        if k in ('hashmap', 'btreemap', 'hashset', 'btreeset'):
            kt = t['key'] if 'key' in t else t['inner']
            simple_key = kt['k'] == 'int'
        if n > 13 and not (k in ('vec', 'vecdeque') and t['inner']['k'] == 'int') and not simple_key:
            n = 13
        ops = []
        if k == 'vec':
            ops.append(f'let mut c: {ty} = Vec::new();' if r.random() < 0.6 else f'let mut c: {ty} = Vec::with_capacity({r.choice([0, 1, 7, 64])});')
            for i in range(n):
                ops.append(f'c.push({self.expr(t["inner"], depth + 1)});')
                if r.random() < 0.15:
                    ops.append('c.pop();')
            if n and r.random() < 0.2:
                ops.append('if !c.is_empty() { c.remove(0); }')
        elif k == 'vecdeque':
            ops.append(f'let mut c: {ty} = VecDeque::with_capacity({r.choice([1, 4, 8])});')
            for i in range(n):
                ops.append(('c.push_back(%s);' if r.random() < 0.55 else 'c.push_front(%s);') % self.expr(t['inner'], depth + 1))
                x = r.random()
                if x < 0.15:
                    ops.append('c.pop_front();')
                elif x < 0.3:
                    ops.append('c.pop_back();')
            if r.random() < 0.3:
                ops.append(f'c.rotate_left(c.len() / 2);')
        elif k in ('hashset', 'btreeset'):
            dense = k == 'hashset' and simple_key and r.random() < 0.5
            if dense:
                # fill a table to its capacity, then remove without a resize: tombstones (DELETED control bytes)
                n = r.choice([14, 28, 56, 112, 224])
                ops.append(f'let mut c: {ty} = HashSet::with_capacity({n});')
            else:
                ops.append(f'let mut c: {ty} = {"HashSet" if k == "hashset" else "BTreeSet"}::new();')
            keys = [self.key_expr(t['inner'], i, n, spread=dense) for i in range(n)]
            for e in keys:
                ops.append(f'c.insert({e});')
            for e in keys:
                if r.random() < (0.5 if dense else 0.25):
                    ops.append(f'c.remove(&{e});')
        else:
            dense = k == 'hashmap' and simple_key and r.random() < 0.5
            if dense:
                n = r.choice([14, 28, 56, 112, 224])
                if t['val']['k'] not in ('int', 'bool', 'char', 'float'):
                    n = min(n, 28)
                ops.append(f'let mut c: {ty} = HashMap::with_capacity({n});')
            else:
                ops.append(f'let mut c: {ty} = {"HashMap" if k == "hashmap" else "BTreeMap"}::new();')
            keys = [self.key_expr(t['key'], i, n, spread=dense) for i in range(n)]
            for e in keys:
                ops.append(f'c.insert({e}, {self.expr(t["val"], depth + 1)});')
            for e in keys:
                if r.random() < (0.5 if dense else 0.25):
                    ops.append(f'c.remove(&{e});')
        return '{ ' + ' '.join(ops) + ' c }'

    def key_expr(self, t, i, n, spread=False):
        """distinct-ish keys: ints are spread, other key types are random (duplicates simply overwrite)"""
        if t['k'] == 'int':
            lo, hi = INTS[t['t']]
            span = hi - lo
            if spread:
                v = lo + (i * 40503 + 7) % (span + 1) if span > 100000 else lo + i % (span + 1)
                return self.int_lit(t['t'], v)
            v = lo + (i * 2654435761 + 12345) % (span + 1) if self.rng.random() < 0.5 else max(lo, min(hi, i - 3))
            return self.int_lit(t['t'], v)
        return self.expr(t, 1)


def gen(seed, nvars=36):
    rng = random.Random(seed)
    g = G(rng)
    vars_ = []
    body = []
    statics = []
    # statics and thread locals (scalars / simple aggregates)
    for i in range(rng.randint(2, 4)):
        t = g.gen_type(1, copy=True)
        while t['k'] in ('struct', 'enum', 'cenum', 'unit', 'array', 'tuple', 'option'):
            t = g.gen_type(0, copy=True)
        if t['k'] in ('string', 'str'):
            t = {'k': 'int', 't': 'u32'}
        statics.append(f'static ST_{i}: {g.rust_type(t)} = {g.expr(t)};')
        vars_.append({'name': f'ST_{i}', 'kind': 'static', 'type': t})
    for i in range(rng.randint(1, 3)):
        t = {'k': 'int', 't': rng.choice(['u32', 'i64', 'u8'])}
        statics.append(f'thread_local! {{ static TL_{i}: Cell<{t["t"]}> = Cell::new({g.expr(t)}); }}')
        vars_.append({'name': f'TL_{i}', 'kind': 'tls', 'type': {'k': 'cell', 'inner': t}})
    for i in range(nvars):
        depth = rng.choice([0, 1, 1, 2, 2, 3])
        t = g.gen_type(depth)
        name = f'v{i}'
        body.append(f'    let {name}: {g.rust_type(t)} = {g.expr(t)};')
        vars_.append({'name': name, 'kind': 'local', 'type': t})
    # every program holds a B-tree of three or more levels (root height >= 2 needs more than 143 entries, or 89 inserted in
    # ascending order), a set of that size and a hash table of many groups, built by insertions and removals
    for j, k in enumerate(('btreemap', 'btreeset', 'hashmap')):
        kt = {'k': 'int', 't': rng.choice(['u32', 'i64', 'u16', 'i32'])}
        t = {'k': k, 'key': kt, 'val': {'k': 'int', 't': rng.choice(['u8', 'i32', 'u64'])}} if k.endswith('map') else {'k': k, 'inner': kt}
        g.force_n = rng.choice([150, 220, 400, 700])
        name = f'v{nvars + j}'
        body.append(f'    let {name}: {g.rust_type(t)} = {g.expr(t)};')
        g.force_n = None
        vars_.append({'name': name, 'kind': 'local', 'type': t})
    # a function with arguments (arguments are values too)
    args = []
    for i in range(rng.randint(2, 4)):
        t = g.gen_type(rng.choice([0, 1, 2]))
        args.append((f'a{i}', t, g.expr(t)))
        vars_.append({'name': f'a{i}', 'kind': 'arg', 'type': t})
    lines = [PRELUDE]
    lines += g.defs
    lines += statics
    sig = ', '.join(f'{n}: {g.rust_type(t)}' for n, t, _ in args)
    lines.append('#[inline(never)]')
    lines.append(f'fn with_args({sig}) {{')
    for n, t, _ in args:
        lines.append(f'    println!("CANON {n}={{}}", {n}.canon());')
    lines.append('    unsafe { std::ptr::write_volatile(&raw mut TICK, 1); } // ARGMARK')
    for n, t, _ in args:
        lines.append(f'    black_box(&{n});')
    lines.append('}')
    lines.append('fn main() {')
    lines += body
    for v in vars_:
        if v['kind'] == 'local':
            lines.append(f'    println!("CANON {v["name"]}={{}}", {v["name"]}.canon());')
        elif v['kind'] == 'static':
            lines.append(f'    println!("CANON {v["name"]}={{}}", {v["name"]}.canon());')
        elif v['kind'] == 'tls':
            lines.append(f'    {v["name"]}.with(|c| println!("CANON {v["name"]}={{}}", c.canon()));')
    lines.append('    unsafe { std::ptr::write_volatile(&raw mut TICK, 2); } // MARK')
    for v in vars_:
        if v['kind'] == 'local':
            lines.append(f'    black_box(&{v["name"]});')
    lines.append('    with_args(' + ', '.join(e for _, _, e in args) + ');')
    lines.append('}')
    src = '\n'.join(lines) + '\n'
    mark = argmark = None
    for i, l in enumerate(src.split('\n')):
        if l.endswith('// MARK'):
            mark = i + 1
        if l.endswith('// ARGMARK'):
            argmark = i + 1
    side = {'family': 'vals', 'seed': seed, 'vars': vars_, 'mark_line': mark, 'argmark_line': argmark}
    return src, side


if __name__ == '__main__':
    import sys
    s, side = gen(int(sys.argv[1]) if len(sys.argv) > 1 else 1)
    print(s)
