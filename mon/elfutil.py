"""Tiny ELF64 reader (stdlib only): program headers, symbols, vaddr<->file offset."""
import struct

_cache = {}


class Elf:
    def __init__(self, path):
        self.path = path
        with open(path, 'rb') as f:
            self.data = f.read()
        d = self.data
        assert d[:4] == b'\x7fELF' and d[4] == 2, 'not ELF64'
        (self.e_type, self.e_machine, _ver, self.e_entry, self.e_phoff, self.e_shoff, _flags, _ehsize,
         self.e_phentsize, self.e_phnum, self.e_shentsize, self.e_shnum, self.e_shstrndx) = struct.unpack_from('<HHIQQQIHHHHHH', d, 16)
        self.phdrs = []
        for i in range(self.e_phnum):
            p_type, p_flags, p_offset, p_vaddr, p_paddr, p_filesz, p_memsz, p_align = struct.unpack_from(
                '<IIQQQQQQ', d, self.e_phoff + i * self.e_phentsize)
            self.phdrs.append({'type': p_type, 'flags': p_flags, 'offset': p_offset, 'vaddr': p_vaddr,
                               'filesz': p_filesz, 'memsz': p_memsz})
        self.shdrs = []
        for i in range(self.e_shnum):
            (sh_name, sh_type, sh_flags, sh_addr, sh_offset, sh_size, sh_link, sh_info, sh_addralign,
             sh_entsize) = struct.unpack_from('<IIQQQQIIQQ', d, self.e_shoff + i * self.e_shentsize)
            self.shdrs.append({'name_off': sh_name, 'type': sh_type, 'flags': sh_flags, 'addr': sh_addr,
                               'offset': sh_offset, 'size': sh_size, 'link': sh_link, 'entsize': sh_entsize})
        if self.shdrs:
            st = self.shdrs[self.e_shstrndx]
            for s in self.shdrs:
                s['name'] = self._str(st['offset'] + s['name_off'])
        self._syms = None

    def _str(self, off):
        e = self.data.index(b'\0', off)
        return self.data[off:e].decode('latin1')

    @property
    def is_pie(self):
        return self.e_type == 3

    def vaddr_to_off(self, vaddr):
        for p in self.phdrs:
            if p['type'] == 1 and p['vaddr'] <= vaddr < p['vaddr'] + p['filesz']:
                return vaddr - p['vaddr'] + p['offset']
        return None

    def off_to_vaddr(self, off):
        for p in self.phdrs:
            if p['type'] == 1 and p['offset'] <= off < p['offset'] + p['filesz']:
                return off - p['offset'] + p['vaddr']
        return None

    def section(self, name):
        for s in self.shdrs:
            if s.get('name') == name:
                return s
        return None

    def symbols(self):
        """list of (name, value, size, info, shndx) from .symtab and .dynsym"""
        if self._syms is None:
            out = []
            for s in self.shdrs:
                if s['type'] in (2, 11):  # SYMTAB, DYNSYM
                    strtab = self.shdrs[s['link']]
                    n = s['size'] // 24
                    for i in range(n):
                        st_name, st_info, st_other, st_shndx, st_value, st_size = struct.unpack_from(
                            '<IBBHQQ', self.data, s['offset'] + i * 24)
                        if st_name:
                            out.append((self._str(strtab['offset'] + st_name), st_value, st_size, st_info, st_shndx))
            self._syms = out
        return self._syms

    def sym(self, name):
        for n, v, *_ in self.symbols():
            if n == name:
                return v
        return None

    def exec_ranges(self):
        return [(p['vaddr'], p['vaddr'] + p['memsz']) for p in self.phdrs if p['type'] == 1 and p['flags'] & 1]


def load(path):
    if path not in _cache:
        _cache[path] = Elf(path)
    return _cache[path]
