"""A debugging session on one worker, with the universal monitors evaluated on every reply that
carries raw observations (`mon`)."""
import json
import os

from . import elfutil
from .common import Worker, WorkerDead, WorkerTimeout, PIE_BASE

MON_FULL = {'thr': True}
MON_LIGHT = {'thr': False, 'dr': False}


class Crash(Exception):
    """the worker (i.e. the debugger) died, panicked or hung"""

    def __init__(self, kind, info=None):
        super().__init__(kind)
        self.kind = kind
        self.info = info


class Session:
    def __init__(self, binary, verdict, extra_env=None, mon=MON_LIGHT, timeout=60, cpus=None, sanitized=False):
        self.b = binary
        self.v = verdict
        self.w = Worker(extra_env=extra_env, cpus=cpus, stderr_path=os.environ.get('VERIF_WORKER_STDERR'), sanitized=sanitized)
        self.mon = mon
        self.timeout = timeout
        self.pid = None
        self.history = []
        self.exited = False
        self.started = False
        self.scoped_wp_companions = set()
        self.allow_extra_text = set()     # relocated addresses allowed to differ (documented internal)
        self.text_checks = 0
        self.tolerate_extra_int3 = False   # set while a scoped watchpoint (end-of-scope companion breakpoints) exists

    # ---------------------------------------------------------------- low level
    def cmd(self, _c, mon=None, timeout=None, **kw):
        name = _c
        m = self.mon if mon is None else mon
        if m is not False and self.pid is not None and not self.exited and (self.started or name in ('start', 'restart')):
            kw['mon'] = m
        self.history.append(dict(kw, cmd=name))
        try:
            r = self.w.cmd(name, timeout=timeout or self.timeout, **kw)
        except WorkerTimeout:
            self.w.kill()
            raise Crash('hang', {'cmd': name, 'args': kw})
        except WorkerDead:
            rc = self.w.exit_status()
            self.w.kill()
            raise Crash('died', {'cmd': name, 'args': kw, 'exit_status': rc, 'sanitizer': [t[:6000] for t in self.w.asan_reports()]})
        if 'panic' in r:
            raise Crash('panic', {'cmd': name, 'args': kw, 'panic': r['panic']})
        for e in r.get('ev', []):
            if e.get('ev') == 'exit':
                self.exited = True
            if e.get('ev') == 'install':
                self.pid = e['pid']
                self.exited = False
        if isinstance(r.get('ok'), dict) and r['ok'].get('stop') == 'exit':
            self.exited = True
        if name in ('start', 'restart') and 'ok' in r:
            self.started = True
        if 'mon' in r and not self.exited:
            self.check_mon(r, name)
        return r

    def launch(self, args=()):
        r = self.cmd('launch', mon=False, prog=self.b.path, args=list(args), cwd=self.b.dir, timeout=120)
        if 'ok' not in r:
            raise RuntimeError(f'launch failed: {r}')
        self.pid = r['ok']['pid']
        return r

    def close(self):
        return self.w.close()

    def peek(self, addr, n):
        r = self.w.cmd('peek', addr=addr, n=n)
        return bytes.fromhex(r['ok']) if 'ok' in r else None

    def peek_u64(self, addr):
        b = self.peek(addr, 8)
        return int.from_bytes(b, 'little') if b else None

    def tick(self):
        a = self.b.sym_addr('TICK')
        return self.peek_u64(a) if a else None

    def output(self, expect_stdout=None, wait=3.0):
        """debuggee output collected so far; the pipe never reaches EOF (the debugger keeps the write
        end for restarts), so wait until the expected bytes arrived or the wait expires"""
        import time
        deadline = time.time() + wait
        while True:
            r = self.w.cmd('output')
            out, err = bytes.fromhex(r['ok']['stdout']), bytes.fromhex(r['ok']['stderr'])
            if expect_stdout is None or len(out) >= len(expect_stdout) or time.time() > deadline:
                return out, err
            time.sleep(0.01)

    # ---------------------------------------------------------------- universal monitors
    def _allowed_internal(self, path, file_off):
        """documented internal patches: ELF entry point of the executable, r_debug.r_brk in ld.so"""
        try:
            e = elfutil.load(path)
        except Exception:
            return False
        if path == self.b.path:
            return e.vaddr_to_off(e.e_entry) == file_off
        if 'ld-linux' in path or '/ld-' in path:
            v = e.sym('_dl_debug_state')
            return v is not None and e.vaddr_to_off(v) == file_off
        return False

    def check_mon(self, r, cmdname):
        m = r['mon']
        v = self.v
        sample_ctx = {'cmd': cmdname, 'binary': self.b.path}
        # --- all-stop (C09): every kernel task in tracing stop
        tasks = m.get('tasks')
        if tasks is not None and self.started:
            v.count('mon_allstop_evals')
            bad = [t for t in tasks if t['state'] not in ('t', 'Z', 'X', 'E')]
            if bad:
                v.violation('allstop:task-not-stopped-at-prompt',
                            'a debuggee thread is not in tracing stop while the debugger reports a stop',
                            dict(sample_ctx, tasks=tasks, reply=str(r.get('ok'))[:400], error=str(r.get('err'))[:400], events=(r.get('ev') or [])[-12:],
                                 debugger_threads=m.get('thr'), history=self.history[-30:]), prop='C09')
            thr = m.get('thr')
            if thr is not None:
                v.count('mon_threadlist_evals')
                ktids = sorted(t['tid'] for t in tasks if t['state'] not in ('Z', 'X', 'E'))
                dtids = sorted(t['tid'] for t in thr)
                if ktids != dtids:
                    v.violation('allstop:thread-list-differs-from-kernel',
                                'thread list reported by the debugger differs from /proc/<pid>/task',
                                dict(sample_ctx, kernel=ktids, debugger=dtids, history=self.history[-30:]), prop='C09')
        # --- pc truth (C01/C03)
        okv = r.get('ok')
        regs = m.get('regs') or {}
        if isinstance(okv, dict) and 'pc' in okv and 'tid' in okv:
            rr = regs.get(str(okv['tid']))
            if rr:
                v.count('mon_pctruth_evals')
                if rr['rip'] != okv['pc']:
                    v.violation(f'pctruth:{okv.get("stop")}', 'reported stop pc differs from the thread\'s real rip',
                                dict(sample_ctx, reported=okv, rip=rr['rip'], history=self.history[-30:]),
                                prop='C01')
        ecx = m.get('ecx')
        if ecx and self.started and cmdname in ('start', 'cont', 'stepi', 'step', 'next', 'finish', 'restart'):
            rr = regs.get(str(ecx['tid']))
            if rr and ecx.get('frame') == 0:
                v.count('mon_ecx_evals')
                if rr['rip'] != ecx['pc'] and 'ok' in r:
                    v.violation(f'pctruth:ecx:{cmdname}', 'exploration context pc differs from the focused thread\'s real rip',
                                dict(sample_ctx, ecx=ecx, rip=rr['rip'], history=self.history[-30:]),
                                prop='C03' if cmdname in ('stepi', 'step', 'next', 'finish') else 'C01')
        # --- text integrity (C02)
        text = m.get('text')
        if text is not None:
            v.count('mon_text_evals')
            self.text_checks += 1
            user = set()
            for bp in m.get('bps', []):
                a = bp['addr']
                if a['kind'] == 'relocated':
                    user.add(a['addr'])
            for d in text['diff']:
                addr, memb, fileb, path, foff = d
                if memb == -1:
                    continue
                if addr in user or addr in self.allow_extra_text:
                    if memb != 0xCC:
                        v.violation('text:user-breakpoint-byte-not-int3', 'patched byte at a user breakpoint is not 0xCC',
                                    dict(sample_ctx, diff=d), prop='C02')
                    continue
                if memb == 0xCC and self._allowed_internal(path, foff):
                    continue
                if memb == 0xCC and self.tolerate_extra_int3:
                    v.count('companion_breakpoints_tolerated')
                    continue
                v.violation(f'text:stray-patch-after-{cmdname}',
                            'code byte differs from the on-disk image where no user or documented internal breakpoint is set',
                            dict(sample_ctx, diff=d, user_bps=sorted(user), history=self.history[-40:]), prop='C02')
                break
            # every enabled user breakpoint must actually be patched
            diffs = {d[0] for d in text['diff']}
            for a in user:
                if a not in diffs:
                    # the original byte could itself be 0xCC (never in generated code)
                    v.violation('text:user-breakpoint-not-patched', 'an enabled user breakpoint has no patch in memory',
                                dict(sample_ctx, addr=a, history=self.history[-40:]), prop='C02')
                    break
        # --- probe log (C08)
        pr = m.get('probe')
        if pr and pr.get('oob'):
            for o in pr['oob']:
                v.violation(f'oob-read:{o["site"]}', 'debugger reads past the bytes it fetched from the debuggee',
                            dict(sample_ctx, probe=o, history=self.history[-10:]), prop='C08')


def reloc(binary, addr_json):
    """relocated address of a BreakpointView address"""
    a = addr_json['addr']
    if addr_json['kind'] == 'global':
        return a + binary.base
    return a
