"""Debuggee corpus: compile generated sources (cached by content hash), native runs, reference traces."""
import bisect
import json
import os
import struct
import subprocess
import sys

from . import common
from .common import CORPUS, REFTRACE, PIE_BASE, fixed_env

TOOLCHAINS = {'1.89': '1.89', '1.95': 'stable'}
BUILD = os.path.join(CORPUS, 'build')


class Config:
    def __init__(self, tc='1.89', opt=0, dwarf=4, pie=True, crate_type='bin', extra=()):
        self.tc, self.opt, self.dwarf, self.pie, self.crate_type, self.extra = tc, opt, dwarf, pie, crate_type, tuple(extra)

    def flags(self):
        f = ['-g', '-C', f'opt-level={self.opt}', '-C', f'dwarf-version={self.dwarf}', '--edition', '2021',
             '-C', 'debug-assertions=off', '-C', 'overflow-checks=off']
        if not self.pie:
            f += ['-C', 'relocation-model=static', '-C', 'link-arg=-no-pie']
        if self.crate_type != 'bin':
            f += ['--crate-type', self.crate_type]
        return f + list(self.extra)

    def key(self):
        return f'{self.tc}-O{self.opt}-dw{self.dwarf}-{"pie" if self.pie else "nopie"}-{self.crate_type}' + \
            ('-' + common.sha(*self.extra)[:6] if self.extra else '')

    def as_dict(self):
        return {'tc': self.tc, 'opt': self.opt, 'dwarf': self.dwarf, 'pie': self.pie}


class Binary:
    def __init__(self, dirpath, name, cfg, side):
        self.dir = dirpath
        self.name = name
        self.cfg = cfg
        self.side = side
        self.src = os.path.join(dirpath, name + '.rs')
        self.path = os.path.join(dirpath, name)
        self._syms = None
        self._elf = None

    @property
    def base(self):
        return PIE_BASE if self.cfg.pie else 0

    def elf_header(self):
        if self._elf is None:
            with open(self.path, 'rb') as f:
                h = f.read(64)
            e_type = struct.unpack_from('<H', h, 16)[0]
            e_entry = struct.unpack_from('<Q', h, 24)[0]
            self._elf = {'type': e_type, 'entry': e_entry}
        return self._elf

    def symbols(self):
        """name -> value from `nm` (mangled names)"""
        if self._syms is None:
            out = subprocess.run(['nm', self.path], stdout=subprocess.PIPE, text=True).stdout
            d = {}
            for l in out.splitlines():
                p = l.split()
                if len(p) == 3:
                    try:
                        d.setdefault(p[2], int(p[0], 16))
                    except ValueError:
                        pass
            self._syms = d
        return self._syms

    def sym_addr(self, name):
        """run-time address of an unmangled symbol"""
        v = self.symbols().get(name)
        return None if v is None else v + self.base


def compile_rust(name, source, cfg, side=None, files=None):
    """Compile `source` as <hash>/<name>.rs with cfg; returns Binary. Cached."""
    h = common.sha(name, source, cfg.key(), *[f'{k}\0{v}' for k, v in sorted((files or {}).items())])[:16]
    d = os.path.join(BUILD, f'{name}-{h}')
    out = os.path.join(d, name if cfg.crate_type == 'bin' else (f'lib{name}.rlib' if cfg.crate_type == 'rlib' else f'lib{name}.so'))
    b = Binary(d, name, cfg, side)
    b.path = out
    okf = os.path.join(d, '.ok')
    if os.path.exists(okf) and os.path.exists(out):
        if side is None and os.path.exists(os.path.join(d, 'side.json')):
            b.side = json.load(open(os.path.join(d, 'side.json')))
        return b
    os.makedirs(d, exist_ok=True)
    # several worker processes may want the same program: one compiles, the others wait for it
    import fcntl
    lockf = open(d + '.lock', 'w')
    fcntl.flock(lockf, fcntl.LOCK_EX)
    if os.path.exists(okf) and os.path.exists(out):
        lockf.close()
        return b
    with open(b.src, 'w') as f:
        f.write(source)
    for rel, content in (files or {}).items():
        fp = os.path.join(d, rel)
        os.makedirs(os.path.dirname(fp), exist_ok=True)
        with open(fp, 'w') as f:
            f.write(content)
    if side is not None:
        with open(os.path.join(d, 'side.json'), 'w') as f:
            json.dump(side, f)
    cmd = ['rustc', '+' + TOOLCHAINS[cfg.tc]] + cfg.flags() + [b.src, '-o', out]
    r = subprocess.run(cmd, cwd=d, stdout=subprocess.PIPE, stderr=subprocess.STDOUT, text=True,
                       env=common.cargo_env())
    if r.returncode != 0:
        sys.stderr.write(r.stdout[-4000:])
        raise RuntimeError(f'generated program failed to compile: {b.src} ({" ".join(cmd)})')
    open(okf, 'w').write(' '.join(cmd))
    lockf.close()
    return b


def native_run(binary, args=(), timeout=60, stdin=None):
    """(stdout bytes, stderr bytes, returncode) of a native run with the fixed environment,
    address-space randomisation off like under the debugger."""
    r = subprocess.run(['setarch', 'x86_64', '-R', binary.path] + list(args), stdout=subprocess.PIPE,
                       stderr=subprocess.PIPE, env=fixed_env(), timeout=timeout, cwd=binary.dir, input=stdin)
    return r.stdout, r.stderr, r.returncode


class Trace:
    """Reference execution: per-step pc/rsp/tick/depth and the call intervals."""

    def __init__(self, prefix):
        self.meta = json.load(open(prefix + '.meta'))
        data = open(prefix + '.steps', 'rb').read()
        n = len(data) // 24
        self.n = n
        self.pc = [0] * n
        self.rsp = [0] * n
        self.tick = [0] * n
        self.depth = [0] * n
        i = 0
        for pc, rsp, tick, depth in struct.iter_unpack('<QQII', data[:n * 24]):
            self.pc[i] = pc
            self.rsp[i] = rsp
            self.tick[i] = tick
            self.depth[i] = depth
            i += 1
        cdata = open(prefix + '.calls', 'rb').read()
        self.calls = sorted(struct.iter_unpack('<QQQQQQ', cdata))  # (start,end,site,target,ret,slot)
        self._by_pc = None
        self._call_starts = [c[0] for c in self.calls]

    def by_pc(self):
        if self._by_pc is None:
            d = {}
            for i, p in enumerate(self.pc):
                d.setdefault(p, []).append(i)
            self._by_pc = d
        return self._by_pc

    def locate(self, pc, rsp, tick, after=-1):
        """first index > after with this (pc, rsp, tick); None if there is none"""
        lst = self.by_pc().get(pc)
        if not lst:
            return None
        j = bisect.bisect_right(lst, after)
        while j < len(lst):
            i = lst[j]
            if self.rsp[i] == rsp and self.tick[i] == tick:
                return i
            j += 1
        return None

    def next_at(self, pcs, after):
        """first index > after whose pc is in the set `pcs` (None if none)"""
        best = None
        bp = self.by_pc()
        for p in pcs:
            lst = bp.get(p)
            if not lst:
                continue
            j = bisect.bisect_right(lst, after)
            if j < len(lst) and (best is None or lst[j] < best):
                best = lst[j]
        return best

    def stack_at(self, idx):
        """active calls at step idx, outermost first: list of (start,end,site,target,ret,slot).
        A call record with start == idx is the call whose first callee instruction is idx."""
        hi = bisect.bisect_right(self._call_starts, idx)
        out = []
        for c in self.calls[:hi]:
            if c[1] > idx:
                out.append(c)
        return out


def ref_trace(binary, args=(), max_steps=5_000_000, validate=False, timeout=600):
    """Reference trace of `binary` (cached next to it). With validate=True the program is traced
    twice and the traces must be identical (oracle self-check)."""
    # the initial stack layout depends on argv and the environment: both are part of the cache key
    tag = common.sha(*args, *[f'{k}={v}' for k, v in sorted(fixed_env().items())])[:10]
    prefix = os.path.join(binary.dir, f'trace-{tag}')
    tick = binary.sym_addr('TICK')

    def run(pfx):
        cmd = [REFTRACE, 'trace', '--out', pfx, '--max-steps', str(max_steps),
               '--stdout', pfx + '.stdout', '--stderr', pfx + '.stderr']
        if tick is not None:
            cmd += ['--tick-addr', hex(tick)]
        cmd += ['--', binary.path] + list(args)
        r = subprocess.run(cmd, env=fixed_env(), cwd=binary.dir, stdout=subprocess.PIPE, stderr=subprocess.PIPE,
                           timeout=timeout)
        if r.returncode != 0:
            raise RuntimeError(f'reftrace failed: {r.stderr[-500:]}')

    if not os.path.exists(prefix + '.meta'):
        run(prefix)
    if validate and not os.path.exists(prefix + '.validated'):
        run(prefix + '.second')
        same = all(open(prefix + ext, 'rb').read() == open(prefix + '.second' + ext, 'rb').read()
                   for ext in ('.steps', '.calls', '.stdout'))
        for ext in ('.steps', '.calls', '.stdout', '.stderr', '.meta'):
            try:
                os.unlink(prefix + '.second' + ext)
            except OSError:
                pass
        open(prefix + '.validated', 'w').write('same' if same else 'differ')
    t = Trace(prefix)
    t.stdout = open(prefix + '.stdout', 'rb').read()
    t.validated = None
    if os.path.exists(prefix + '.validated'):
        t.validated = open(prefix + '.validated').read() == 'same'
    return t
