"""C15: memory and register access is exact.

API leg (worker hosting the real Debugger): random (address, length) reads and word writes over a region
[PROT_NONE][rw][rw][PROT_NONE] and over statics with guard neighbours are compared with the kernel's view read by
the monitor itself from /proc/<pid>/mem before and after: a read must return exactly the kernel's bytes for every
fully mapped range (an error is allowed only when part of the range is unmapped); a write must change exactly
[a, a+8) and nothing in the 64 bytes around it; register writes must be visible in a raw PTRACE_GETREGS, in a
subsequent read and in the global into which the program's own inline asm stores the register; the disassembly
of the current function must have the instruction boundaries of llvm-objdump and no int3 where objdump has
none, with user breakpoints set inside the function.
DAP leg (real `bs` over TCP): readMemory / writeMemory at every alignment and length against a byte model,
setVariable / setExpression read back with untouched neighbours (see mon/dapmon.py).
"""
import os
import re
import subprocess
import sys

sys.path.insert(0, os.path.dirname(os.path.dirname(os.path.abspath(__file__))))
from gen import mem  # noqa: E402
from . import common, corpus  # noqa: E402
from .common import Verdict, rng_for  # noqa: E402
from .session import Session, Crash  # noqa: E402

TMO = 60
MON = {'thr': False, 'dr': False, 'text': True, 'regs': True}
BOUNDARY = [0, 1, 0x7f, 0x80, 0xff, 0x100, 0x7fffffff, 0x80000000, 0xffffffff, 0x1_0000_0000, 0x7fffffffffffffff, 0x8000000000000000,
            0xffffffffffffffff, 0xdeadbeefcafef00d]


def objdump_fn(b, name):
    out = subprocess.run(['nm', '-S', b.path], stdout=subprocess.PIPE, text=True).stdout
    for l in out.splitlines():
        p = l.split()
        if len(p) == 4 and re.search(r'\d+' + name + r'17h', p[3]):
            lo, hi = int(p[0], 16), int(p[0], 16) + int(p[1], 16)
            txt = subprocess.run(['llvm-objdump-14', '-d', '--no-show-raw-insn', f'--start-address={lo:#x}', f'--stop-address={hi:#x}', b.path],
                                 stdout=subprocess.PIPE, text=True).stdout
            ins = []
            for ll in txt.splitlines():
                m = re.match(r'^\s*([0-9a-f]+):\s+(\S+)(.*)', ll)
                if m:
                    ins.append((int(m.group(1), 16), m.group(2), m.group(3)))
            return lo, hi, ins
    return None


def run_case(spec):
    idx, cfgd, tier = spec
    v = Verdict('C15', tier, '')
    src, side = mem.gen(common.seed() * 100 + idx)
    b = corpus.compile_rust(f'mem{idx}', src, corpus.Config(**cfgd), side)
    rng = rng_for(common.seed(), 'c15', idx, sorted(cfgd.items()))
    ctx = {'binary': b.path}
    S = Session(b, v, mon=MON, timeout=TMO)
    PAGE = 4096
    try:
        S.launch()
        r = S.cmd('break_fn', name='stop_here')
        lo, hi, ins = objdump_fn(b, 'probe')
        first_mov = next(a for a, m, rest in ins if m.startswith('mov') and '%rbx' in rest)
        nop = next(a for a, m, rest in ins if m == 'nop' and a > first_mov)
        r = S.cmd('start', timeout=TMO)
        if (r.get('ok') or {}).get('stop') != 'breakpoint':
            v.inconc('not-at-first-stop', str(r)[:200])
            return v.export()
        region = S.peek_u64(b.sym_addr('REGION'))
        n_ops = 300 if tier == 'quick' else 3000
        # ------------------------------------------------------------------ memory reads
        for _ in range(n_ops):
            k = rng.random()
            if k < 0.25:
                a = region + 2 * PAGE - rng.randint(1, 24)     # tail before the PROT_NONE page
                n = rng.randint(1, 40)
            elif k < 0.4:
                a = region - rng.randint(0, 16)                # starts in (or just before) the leading hole
                n = rng.randint(1, 32)
            elif k < 0.5:
                a = region + PAGE - rng.randint(0, 16)         # page crossing inside the mapped part
                n = rng.randint(1, 64)
            else:
                a = region + rng.randrange(2 * PAGE - 64)
                n = rng.choice([1, 2, 3, 4, 5, 7, 8, 9, 15, 16, 17, 24, 31, 32, 33, 64, 100])
            truth = S.peek(a, n)
            r = S.cmd('read_mem', addr=a, n=n, mon=False)
            v.count('memory_reads')
            mapped = truth is not None
            if mapped:
                v.count('memory_reads_fully_mapped')
                if 'ok' not in r:
                    cls = 'tail-before-unmapped-page' if a + n > region + 2 * PAGE - 8 else 'other'
                    v.violation(f'c15:read-fails-on-mapped-range:{cls}', 'a read of a fully mapped range returned an error',
                                dict(ctx, offset=a - region, n=n, err=r.get('err')))
                elif bytes.fromhex(r['ok']) != truth:
                    v.violation('c15:read-returns-wrong-bytes', 'a memory read returned bytes different from what the process holds',
                                dict(ctx, offset=a - region, n=n, got=r['ok'][:80], truth=truth.hex()[:80]))
            else:
                v.count('memory_reads_partly_unmapped')
                if 'ok' in r and len(bytes.fromhex(r['ok'])) == n:
                    v.violation('c15:read-succeeds-on-unmapped-range', 'a read that covers unmapped memory returned data',
                                dict(ctx, offset=a - region, n=n))
            v.case(signature=('read', a % 8, min(n, 17), mapped), n=1)
        # ------------------------------------------------------------------ word writes
        targets = [('region', region)] + [('static', b.sym_addr('TARGET'))]
        for _ in range(n_ops // 3):
            which, base = rng.choice(targets)
            if which == 'region':
                a = base + rng.choice([rng.randrange(2 * PAGE - 8), PAGE - rng.randint(1, 7), 2 * PAGE - 8, rng.randrange(64)])
            else:
                a = base + rng.randrange(0, 17)
            val = rng.choice(BOUNDARY + [rng.getrandbits(64)])
            lo_a = max(a - 32, region if which == 'region' else a - 32)
            hi_a = min(a + 40, region + 2 * PAGE) if which == 'region' else a + 40
            before = S.peek(lo_a, hi_a - lo_a)
            r = S.cmd('write_mem', addr=a, value=val, mon=False)
            after = S.peek(lo_a, hi_a - lo_a)
            v.count('memory_writes')
            if before is None or after is None:
                continue
            if 'ok' not in r:
                v.violation('c15:write-fails-on-mapped-range', 'a word write into mapped memory returned an error',
                            dict(ctx, where=which, offset=a - base, err=r.get('err')))
                continue
            exp = bytearray(before)
            exp[a - lo_a:a - lo_a + 8] = val.to_bytes(8, 'little')
            if bytes(exp) != after:
                diff = [i + lo_a - a for i in range(len(after)) if after[i] != exp[i]]
                v.violation('c15:write-changes-other-bytes' if any(d < 0 or d >= 8 for d in diff) else 'c15:write-stores-wrong-value',
                            'a write of 8 bytes at address a changed something other than exactly [a, a+8) to the given value',
                            dict(ctx, where=which, offset=a - base, value=hex(val), wrong_at_relative_offsets=diff[:16]))
            v.case(signature=('write', which, a % 8), n=1)
        # ------------------------------------------------------------------ registers (callee-saved, inside probe)
        r = S.cmd('break_addr', addr=first_mov + b.base)
        r2 = S.cmd('break_addr', addr=nop + b.base)
        r = S.cmd('cont', timeout=TMO)
        if (r.get('ok') or {}).get('pc') == first_mov + b.base:
            regs = ['rbx', 'r12', 'r13', 'r14', 'r15']
            tid = r['ok']['tid']
            orig = {}
            setv = {}
            for rg in regs:
                g = S.cmd('get_reg', reg=rg, mon=False)
                orig[rg] = g.get('ok')
                raw = ((r.get('mon') or {}).get('regs') or {}).get(str(tid), {}).get(rg)
                v.count('register_reads')
                if raw is not None and g.get('ok') != raw:
                    v.violation('c15:register-read-wrong', 'a register read differs from the raw PTRACE_GETREGS value', dict(ctx, reg=rg, got=g.get('ok'), raw=raw))
            for rg in regs:
                val = rng.choice(BOUNDARY + [rng.getrandbits(64)])
                setv[rg] = val
                w = S.cmd('set_reg', reg=rg, value=val)
                v.count('register_writes')
                raw = ((w.get('mon') or {}).get('regs') or {}).get(str(tid), {})
                if 'ok' not in w:
                    v.violation('c15:register-write-failed', 'a register write returned an error', dict(ctx, reg=rg, err=w.get('err')))
                    continue
                if raw.get(rg) != val:
                    v.violation('c15:register-write-not-visible-in-raw-regs', 'after a register write the raw register file holds another value',
                                dict(ctx, reg=rg, written=hex(val), raw=raw.get(rg)))
                for other in regs:
                    exp = setv.get(other, orig[other])
                    if raw.get(other) != exp:
                        v.violation('c15:register-write-changes-another-register', 'a register write changed another register',
                                    dict(ctx, written_reg=rg, other=other, expected=exp, raw=raw.get(other)))
                g = S.cmd('get_reg', reg=rg, mon=False)
                if g.get('ok') != val:
                    v.violation('c15:register-read-after-write', 'reading a register back after a write gives another value', dict(ctx, reg=rg, written=hex(val), got=g.get('ok')))
            # disassembly of probe with two user breakpoints inside it
            d = S.cmd('disasm', mon=False)
            if 'ok' in d:
                got = [(i[0] - b.base if i[0] >= b.base else i[0], i[1]) for i in d['ok']['ins']]
                exp_addrs = [a for a, m, rest in ins]
                got_addrs = [a for a, m in got if lo <= a < hi]
                v.count('disassemblies')
                if got_addrs[:len(exp_addrs)] != exp_addrs[:len(got_addrs)] or not got_addrs:
                    v.violation('c15:disassembly-boundaries-differ', 'instruction boundaries of the disassembly differ from llvm-objdump',
                                dict(ctx, got=[hex(x) for x in got_addrs[:20]], expected=[hex(x) for x in exp_addrs[:20]]))
                elif any(m.startswith('int3') for a, m in got if lo <= a < hi):
                    v.violation('c15:disassembly-shows-breakpoint-patch', 'the disassembly shows an int3 where the program has another instruction',
                                dict(ctx, got=got[:20]))
            r = S.cmd('cont', timeout=TMO)       # to the nop after the asm stores
            pb = S.peek(b.sym_addr('PROBE'), 40)
            for i, rg in enumerate(regs):
                seen = int.from_bytes(pb[i * 8:i * 8 + 8], 'little')
                v.count('register_writes_seen_by_program')
                if seen != setv[rg]:
                    v.violation('c15:register-write-not-visible-to-program', 'the program itself did not see the written register value',
                                dict(ctx, reg=rg, written=hex(setv[rg]), program_stored=hex(seen)))
            for rg in regs:   # restore so that main continues with its own values
                S.cmd('set_reg', reg=rg, value=orig[rg], mon=False)
            v.case(signature=('regs', idx), n=1)
        else:
            v.inconc('probe-breakpoint-not-reached', str(r.get('ok'))[:100])
        for bp in (S.w.cmd('bps').get('ok') or []):
            S.w.cmd('remove_num', num=bp['num'])
        r = S.cmd('cont', timeout=TMO)
        v.count('runs_completed', 1 if S.exited else 0)
    except Crash as c:
        loc = (c.info or {}).get('panic', {}).get('loc') if c.kind == 'panic' else (c.info or {}).get('cmd')
        if c.kind == 'hang':
            v.inconc('watchdog', dict(ctx, info=c.info))
        else:
            v.violation(f'crash:{c.kind}:{loc}', f'debugger {c.kind} on a memory/register command', dict(ctx, info=c.info), prop='C08')
    finally:
        S.close()
    return v.export()


def main(tier):
    rule = ('case = one memory read / word write / register write / disassembly through the Debugger API at a random address, alignment and length '
            '(page and word crossings, tails before an unmapped page, unmapped starts), compared with /proc/<pid>/mem before and after, raw '
            'PTRACE_GETREGS and the value the program\'s own asm stores; distinct = distinct (operation, alignment, length class, mapped)')
    V = Verdict('C15', tier, rule)
    V.minima = {'memory_reads': 1000, 'memory_writes': 300, 'register_writes': 15, 'register_writes_seen_by_program': 15} if tier == 'quick' else \
        {'memory_reads': 60000, 'memory_writes': 20000, 'register_writes': 250, 'register_writes_seen_by_program': 250}
    V.assumptions = ['/proc/<pid>/mem and PTRACE_GETREGS read by the monitor are the truth']
    cfgs = [dict(tc='1.89', opt=0), dict(tc='1.95', opt=0), dict(tc='1.89', opt=1)]
    n = 4 if tier == 'quick' else 64
    specs = [(i, cfgs[i % 3], tier) for i in range(n)]
    for res in common.safe_map(run_case, specs, procs=8):
        V.merge(res)
    try:
        from . import dapmon
        dapmon.c15_leg(V, tier)
    except ImportError:
        pass
    return V.finish()
