#!/usr/bin/env python3
"""setup_cmd: build the harness (worker, tracer) and the bs binary offline from files on disk."""
import os
import sys

sys.path.insert(0, os.path.dirname(os.path.dirname(os.path.abspath(__file__))))
from mon import common  # noqa: E402

common.build_harness()
common.build_bs()
print('setup ok')
