"""C07: data query expressions mean what the documentation says.

(1) Parse round trip: random Dqe trees are printed by the generator's canonical printer (with random
    whitespace and redundant parentheses) and parsed by the debugger's own parser; the AST must equal
    the tree (compared through lower::dqe_json).
(2) Evaluation: type-directed expressions over generated programs are evaluated by the debugger at a
    stop and compared with a small model of the documented operators over the program's own
    canonical output (index = element / value under key / set membership, slice = elements l..r-1,
    *& = identity, deref = pointee, (~v).len = length, field = member; an operator that does not
    apply yields no result).
"""
import os
import sys

sys.path.insert(0, os.path.dirname(os.path.dirname(os.path.abspath(__file__))))

from gen import dqe  # noqa: E402
from . import common, valslib, valcmp  # noqa: E402
from .common import Verdict, rng_for, Worker  # noqa: E402
from .session import Session, Crash, MON_LIGHT  # noqa: E402


def shape(a):
    d = a['d']
    if d in ('var', 'ptrcast'):
        return d[0]
    return d[0] + '(' + shape(a['e']) + ')'


def lz_float(a):
    """does the tree hold a float literal whose fraction starts with 0 (e.g. 0.001, 12.05)"""
    def in_lit(l):
        if l is None:
            return False
        if l['l'] == 'float':
            frac = l['txt'].split('.')[1]
            return len(frac) > 1 and frac[0] == '0'
        if l['l'] == 'enum':
            return in_lit(l.get('p'))
        if l['l'] == 'array':
            return any(in_lit(x) for x in l['items'])
        if l['l'] == 'assoc':
            return any(in_lit(x[1]) for x in l['items'])
        return False
    if a['d'] == 'index' and in_lit(a['i']):
        return True
    return 'e' in a and lz_float(a['e'])


def parse_batch(spec):
    batch, n, tier = spec
    v = Verdict('C07', tier, '')
    rng = rng_for(common.seed(), 'c07-parse', batch)
    w = Worker()
    try:
        asts = [dqe.rnd_ast(rng, rng.randint(0, 5)) for _ in range(n)]
        texts = [dqe.text(a, rng) for a in asts]
        r = w.cmd('parse_exprs', texts=texts, timeout=300)
        if 'ok' not in r:
            v.inconc('parse-batch-failed', str(r)[:300])
            return v.export()
        shapes = set()
        for a, t, got in zip(asts, texts, r['ok']):
            v.count('parses')
            want = dqe.expected_json(a)
            shapes.add(shape(a))
            if isinstance(got, dict) and 'panic' in got:
                v.violation(f'crash:panic:{(got["panic"] or {}).get("loc")}', 'expression parser panicked', {'text': t, 'panic': got['panic']}, prop='C08')
                continue
            if got != want:
                cls = 'rejected' if got is None else 'different-tree'
                top = 'float-literal-fraction-with-leading-zero' if lz_float(a) else a['d']
                v.violation(f'c07:parse:{cls}:{top}', 'the canonical text of an expression does not parse back to that expression',
                            {'text': t, 'want': want, 'got': got})
        for s in shapes:
            v.distinct.add('shape:' + s)
        v.case(signature=None, sample={'text': texts[0], 'ast': dqe.expected_json(asts[0])}, n=n)
    finally:
        w.close()
    return v.export()


def eval_case(spec):
    idx, cfg, tier = spec
    v = Verdict('C07', tier, '')
    try:
        prep = valslib.prepare(idx, **cfg)
    except Exception as e:
        v.inconc('prepare-failed', str(e)[-300:])
        return v.export()
    okk, why = prep.oracle_ok()
    if not okk:
        v.inconc('oracle-unusable', why)
        return v.export()
    rng = rng_for(common.seed(), 'c07-eval', idx, sorted(cfg.items()))
    src = os.path.basename(prep.b.src)
    S = Session(prep.b, v, mon=MON_LIGHT)
    ctx = {'binary': prep.b.path, 'src': prep.b.src, 'cfg': cfg}
    tags = set()
    try:
        S.launch()
        r1 = S.cmd('break_line', file=src, line=prep.side['mark_line'])
        r = S.cmd('start')
        if 'ok' not in r1 or (r.get('ok') or {}).get('stop') != 'breakpoint':
            v.inconc('did-not-reach-marker', str(r)[:200])
            return v.export()
        for var in prep.side['vars']:
            if var['kind'] != 'local':
                continue
            truth = prep.truth[var['name']]
            for text, exp, tag in dqe.typed_exprs(var, truth, rng):
                rr = S.cmd('var', mon=False, expr=text, deref=3, timeout=60)
                v.count('evaluations')
                tags.add(tag)
                v.count('tag_' + tag)
                d = dict(ctx, expr=text, tag=tag, var_type=var['type'])
                if 'ok' not in rr:
                    # a parse error of a well-formed expression or an evaluation error
                    if exp == dqe.NORESULT:
                        v.count('not_applicable_cases')
                        continue
                    v.violation(f'c07:eval:error:{tag}', f'a documented expression failed: {rr.get("err")}', d)
                    continue
                res = rr['ok']
                if exp == dqe.NORESULT:
                    v.count('not_applicable_cases')
                    if res:
                        v.violation(f'c07:eval:value-where-operator-does-not-apply:{tag}',
                                    'an operator that does not apply produced a value instead of no result',
                                    dict(d, got=str(res[0]['value'])[:400]))
                    continue
                if len(res) != 1 and tag in ('set-non-member', 'na-absent-key') and var['type']['k'] in ('btreeset', 'btreemap') \
                        and not (truth.get('set') or truth.get('m')):
                    v.count('note-empty-btree-not-interpreted')
                    continue
                if len(res) != 1:
                    from .c06 import has_single_variant_cenum as _sv
                    kt = var['type'].get('inner') if var['type']['k'] in ('btreeset', 'hashset') else var['type'].get('key')
                    if tag in ('set-member', 'map-key', 'map-key-wildcard') and kt is not None and _sv(kt):
                        v.violation('c06:enum-undecoded-zero-sized-single-variant:any:local', 'a field-less enum with a single variant is shown without a variant',
                                    dict(d, n=len(res)), prop='C06')
                        continue
                    v.violation(f'c07:eval:no-result:{tag}', 'a documented expression produced no (or several) results', dict(d, n=len(res), want=str(exp)[:300]))
                    continue
                got = res[0]['value']
                if isinstance(exp, tuple) and exp[0] == 'any-of':
                    ok_ = any(not valcmp.hard(valcmp.match(got, c)) for c in exp[1])
                    if not ok_:
                        v.violation(f'c07:eval:wrong-value:{tag}', 'the value selected by a wildcard key is not the value of any matching entry',
                                    dict(d, got=str(got)[:400], candidates=str(exp[1])[:400]))
                    continue
                mism = valcmp.hard(valcmp.match(got, exp))
                if mism:
                    from .c06 import has_128
                    if has_128(var['type']) and valcmp.contains_undecoded_enum(got):
                        v.violation('c06:enum-undecoded-128-bit-discriminant:any:local', 'enum with a 128-bit discriminant is shown without a variant',
                                    dict(d, got=str(got)[:300]), prop='C06')
                        continue
                    from .c06 import has_single_variant_cenum
                    # the key of a set / map is (or holds) a zero-sized single-variant enum: it is shown without its variant (C06 known
                    # finding), so no key literal can match it
                    key_t = var['type'].get('inner') if var['type']['k'] in ('btreeset', 'hashset') else var['type'].get('key')
                    keyed = tag in ('set-member', 'map-key', 'map-key-wildcard') and key_t is not None and has_single_variant_cenum(key_t)
                    if keyed or has_single_variant_cenum(var['type']) and valcmp.contains_undecoded_enum(got):
                        v.violation('c06:enum-undecoded-zero-sized-single-variant:any:local', 'a field-less enum with a single variant is shown without a variant',
                                    dict(d, got=str(got)[:300]), prop='C06')
                        continue
                if mism:
                    v.violation(f'c07:eval:wrong-value:{tag}', 'the expression evaluates to a different value than the documented meaning',
                                dict(d, mismatches=mism[:4], want=str(exp)[:400], got=str(got)[:600]))
        v.case(signature=('c07-eval', idx, tuple(sorted(cfg.items()))), sample={'program': src, 'cfg': cfg, 'tags': sorted(tags)})
        for t in tags:
            v.distinct.add('tag:' + t)
    except Crash as c:
        v.violation(f'crash:{c.kind}:{(c.info or {}).get("panic", {}).get("loc") if c.kind == "panic" else (c.info or {}).get("cmd")}',
                    f'debugger {c.kind} while evaluating an expression', {'info': c.info, 'history': S.history[-3:], 'binary': prep.b.path}, prop='C08')
    finally:
        S.close()
    return v.export()


def _prep(p):
    idx, cfg = p
    try:
        valslib.prepare(idx, **dict(cfg))
    except Exception as e:
        return str(e)


def main(tier):
    rule = ('parse cases = random Dqe trees up to depth 5 printed with random whitespace/parentheses (distinct = operator-nesting shapes); '
            'evaluation cases = type-directed expressions per variable of generated programs with the expected value from a model of the '
            'documented operators over the program\'s own canonical output (distinct = operator tags and programs)')
    V = Verdict('C07', tier, rule)
    V.minima = {'parses': 1500, 'evaluations': 400, 'not_applicable_cases': 60} if tier == 'quick' else \
        {'parses': 150000, 'evaluations': 15000, 'not_applicable_cases': 3000}
    V.assumptions = ['the model encodes only what print.mdx states; tuple element access and rendering are not judged',
                     'slices are evaluated only inside the bounds of the sequence (out-of-range bounds are C08 inputs)',
                     'identifiers starting with `true`/`false` and numbers beyond i64/usize are not generated here (C08 covers them)']
    if tier == 'quick':
        pspecs = [(b, 250, tier) for b in range(8)]
        especs = [(i, dict(tc=('1.89' if i % 2 == 0 else '1.95'), opt=0, dwarf=4, pie=True), tier) for i in range(6)]
    else:
        pspecs = [(b, 2500, tier) for b in range(64)]
        especs = [(i, dict(tc=tc, opt=0, dwarf=4, pie=True), tier) for i in range(60) for tc in ('1.89', '1.95')]
    for res in common.safe_map(parse_batch, pspecs):
        V.merge(res)
    common.parallel_map(_prep, sorted({(s[0], tuple(sorted(s[1].items()))) for s in especs}))
    for res in common.safe_map(eval_case, especs):
        V.merge(res)
    return V.finish()
