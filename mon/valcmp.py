"""Compare a lowered BugStalker value (bsmon/src/lower.rs JSON) with the canonical truth the program
printed about itself (gen/vals.py trait Canon). match(bs, truth) -> list of (path, class, detail)."""
import re


def _scalar(bs):
    """unwrap single-member wrapper structs (NonZero<..>, transparent newtypes) down to a scalar"""
    seen = 0
    while bs is not None and bs.get('k') == 'struct' and len(bs.get('m', [])) == 1 and seen < 6:
        bs = bs['m'][0][1]
        seen += 1
    if bs is not None and bs.get('k') == 'cmod':
        bs = bs.get('v')
    return bs


def _seq_items(bs):
    """elements of a sequence-like lowered value, or None"""
    if bs is None:
        return None
    k = bs.get('k')
    if k == 'array':
        it = bs.get('items')
        return None if it is None else [x[1] for x in it]
    if k == 'spec':
        sp = bs['spec']
        if sp.get('s') in ('vec', 'vecdeque'):
            inner = sp['inner']
            for name, v in inner.get('m', []):
                if v.get('k') == 'array':
                    it = v.get('items')
                    return None if it is None else [x[1] for x in it]
            return None
    return None


def _deref(bs):
    """pointee of pointer-like values: (found, target)"""
    if bs is None:
        return False, None
    k = bs.get('k')
    if k == 'ptr':
        return True, bs.get('target')
    if k == 'spec' and bs['spec'].get('s') in ('rc', 'arc'):
        p = bs['spec']['p']
        t = p.get('target')
        if t is None:
            return True, None
        # RcBox / ArcInner {strong, weak, value|data}
        for name, v in t.get('m', []):
            if name in ('value', 'data'):
                return True, v
        return True, t
    return False, None


def match(bs, truth, path='', out=None, depth=0):
    if out is None:
        out = []
    if bs is None:
        out.append((path, 'unavailable', 'debugger shows no value'))
        return out
    k = bs.get('k')
    if k == 'cmod' and bs.get('v') is not None:
        return match(bs['v'], truth, path, out, depth)
    # the heap block of an Rc/Arc (what `*rc` evaluates to in BugStalker): the payload is its value/data member
    if bs.get('k') == 'struct':
        names = [n for n, _ in bs.get('m', [])]
        truth_is_such_a_block = isinstance(truth, dict) and 's' in truth and \
            sorted(f[0] for f in truth.get('f', [])) in (['strong', 'value', 'weak'], ['data', 'strong', 'weak'])
        if 'strong' in names and 'weak' in names and ('value' in names or 'data' in names) and len(names) == 3 \
                and not truth_is_such_a_block:
            inner = [x for n, x in bs['m'] if n in ('value', 'data')][0]
            return match(inner, truth, path + '.value', out, depth)
    # a reference variable whose canonical form is the pointee (method resolution picks T's impl for `&T` receivers)
    if not (isinstance(truth, dict) and 'p' in truth and 'e' not in truth):
        found, tgt = _deref(bs)
        if found:
            if tgt is None:
                out.append((path, 'unavailable', 'pointer target not shown'))
                return out
            return match(tgt, truth, path + '*', out, depth + 1)
    # ---- scalars
    if isinstance(truth, bool):
        s = _scalar(bs)
        if not s or s.get('k') != 'scalar' or not s.get('v') or s['v'].get('t') != 'bool' or s['v'].get('v') is not truth:
            out.append((path, 'wrong-scalar', f'bool {truth} vs {brief(s)}'))
        return out
    if truth is None:
        s = bs
        if not ((s.get('k') == 'scalar' and (s.get('v') or {}).get('t') == 'unit') or (s.get('k') == 'struct' and not s.get('m'))
                or (s.get('k') == 'scalar' and s.get('v') is None and (s.get('ty') or {}).get('name') == '()')):
            out.append((path, 'wrong-scalar', f'unit vs {brief(s)}'))
        return out
    if 'i' in truth:
        s = _scalar(bs)
        v = (s or {}).get('v') if s and s.get('k') == 'scalar' else None
        if not v or 'v' not in v or str(v['v']) != truth['i'] or v.get('t') in ('bool', 'char', 'f32', 'f64'):
            out.append((path, 'wrong-scalar', f'int {truth["i"]} vs {brief(s)}'))
        return out
    if 'f32' in truth or 'f64' in truth:
        t = 'f32' if 'f32' in truth else 'f64'
        s = _scalar(bs)
        v = (s or {}).get('v') if s and s.get('k') == 'scalar' else None
        if not v or v.get('t') != t or str(v.get('bits')) != str(truth[t]):
            out.append((path, 'wrong-scalar', f'{t} bits {truth[t]} vs {brief(s)}'))
        return out
    if 'c' in truth:
        s = _scalar(bs)
        v = (s or {}).get('v') if s and s.get('k') == 'scalar' else None
        if not v or v.get('t') != 'char' or v.get('v') != truth['c']:
            out.append((path, 'wrong-scalar', f'char {truth["c"]} vs {brief(s)}'))
        return out
    if 'str' in truth:
        want = bytes.fromhex(truth['str']).decode('utf-8')
        if k == 'spec' and bs['spec'].get('s') in ('string', 'str'):
            if bs['spec'].get('v') != want:
                out.append((path, 'wrong-string', f'{want!r} vs {bs["spec"].get("v")!r}'))
        elif k == 'spec_none':
            out.append((path, 'unavailable', 'string not interpreted'))
        else:
            out.append((path, 'kind-mismatch', f'string vs {brief(bs)}'))
        return out
    # ---- references are transparent where the debugger shows the pointee itself (&str, slices)
    if 'p' in truth and 'e' not in truth:
        found, tgt = _deref(bs)
        if found:
            if tgt is None:
                if depth > 8:
                    return out
                out.append((path, 'unavailable', 'pointer target not shown'))
                return out
            return match(tgt, truth['p'], path + '*', out, depth + 1)
        return match(bs, truth['p'], path, out, depth)
    if 'cell' in truth:
        if k == 'spec' and bs['spec'].get('s') in ('cell', 'refcell'):
            inner = bs['spec']['v']
            if bs['spec'].get('s') == 'refcell' and inner is not None and inner.get('k') == 'struct':
                mem = {n: x for n, x in inner.get('m', [])}
                if 'value' in mem and 'borrow' in mem:
                    inner = mem['value']
            return match(inner, truth['cell'], path + '.cell', out, depth)
        if k == 'spec' and bs['spec'].get('s') == 'tls':
            return match(bs['spec'].get('v'), truth, path + '.tls', out, depth)
        out.append((path, 'kind-mismatch', f'cell vs {brief(bs)}'))
        return out
    if 't' in truth:
        if k != 'struct':
            out.append((path, 'kind-mismatch', f'tuple vs {brief(bs)}'))
            return out
        m = bs.get('m', [])
        if len(m) != len(truth['t']):
            out.append((path, 'wrong-arity', f'tuple of {len(truth["t"])} vs {len(m)} members'))
            return out
        for i, tv in enumerate(truth['t']):
            match(m[i][1], tv, f'{path}.{i}', out, depth)
        return out
    if 's' in truth:
        if k != 'struct':
            out.append((path, 'kind-mismatch', f'struct vs {brief(bs)}'))
            return out
        members = {n: v for n, v in bs.get('m', [])}
        if len(members) != len(truth['f']):
            out.append((path, 'wrong-arity', f'struct {truth["s"]}: {len(truth["f"])} fields vs {sorted(members)}'))
        for n, tv in truth['f']:
            if n not in members:
                out.append((f'{path}.{n}', 'missing-field', ''))
            else:
                match(members[n], tv, f'{path}.{n}', out, depth)
        return out
    if 'ce' in truth:
        if k != 'cenum' or bs.get('v') != truth['v']:
            out.append((path, 'wrong-variant', f'{truth["ce"]}::{truth["v"]} vs {brief(bs)}'))
        return out
    if 'e' in truth:
        if k == 'cenum' and not truth.get('p') and not truth.get('pf'):
            # an enum whose variants all carry no data is a C-like enum for the compiler
            if bs.get('v') != truth['v']:
                out.append((path, 'wrong-variant', f'{truth["e"]}::{truth["v"]} vs {brief(bs)}'))
            return out
        if k == 'enum' and bs.get('variant') is None:
            out.append((path, 'enum-undecoded', f'{truth["e"]}::{truth["v"]}: no variant shown'))
            return out
        if k != 'enum':
            out.append((path, 'kind-mismatch', f'enum vs {brief(bs)}'))
            return out
        if bs.get('variant') != truth['v']:
            out.append((path, 'wrong-variant', f'{truth["e"]}::{truth["v"]} vs {bs.get("variant")}'))
            return out
        payload = bs.get('v')
        if 'pf' in truth:
            members = {n: v for n, v in (payload or {}).get('m', [])} if payload and payload.get('k') == 'struct' else None
            if members is None:
                out.append((path, 'kind-mismatch', f'variant payload vs {brief(payload)}'))
                return out
            for n, tv in truth['pf']:
                if n not in members:
                    out.append((f'{path}.{n}', 'missing-field', ''))
                else:
                    match(members[n], tv, f'{path}.{n}', out, depth)
            return out
        want = truth['p']
        if not want:
            return out
        if payload is None:
            out.append((path, 'unavailable', 'variant payload not shown'))
            return out
        if payload.get('k') == 'struct':
            m = payload.get('m', [])
            if len(m) != len(want):
                out.append((path, 'wrong-arity', f'variant {truth["v"]} payload {len(want)} vs {len(m)}'))
                return out
            for i, tv in enumerate(want):
                match(m[i][1], tv, f'{path}.{truth["v"]}.{i}', out, depth)
        elif len(want) == 1:
            match(payload, want[0], f'{path}.{truth["v"]}.0', out, depth)
        else:
            out.append((path, 'kind-mismatch', f'variant payload vs {brief(payload)}'))
        return out
    if 'a' in truth:
        items = _seq_items(bs)
        if items is None:
            # slices are shown as {data_ptr, length}: check what is shown
            if k == 'struct':
                mem = {n: v for n, v in bs.get('m', [])}
                if 'length' in mem and 'data_ptr' in mem:
                    match(mem['length'], {'i': str(len(truth['a']))}, path + '.length', out, depth)
                    if truth['a']:
                        found, tgt = _deref(mem['data_ptr'])
                        if tgt is not None:
                            match(tgt, truth['a'][0], path + '[0]', out, depth)
                    return out
            if k == 'spec_none':
                out.append((path, 'unavailable', 'collection not interpreted'))
            else:
                out.append((path, 'kind-mismatch', f'sequence vs {brief(bs)}'))
            return out
        if len(items) != len(truth['a']):
            out.append((path, 'wrong-length', f'{len(truth["a"])} elements vs {len(items)} shown'))
            return out
        for i, tv in enumerate(truth['a']):
            match(items[i], tv, f'{path}[{i}]', out, depth)
        return out
    if 'set' in truth or 'm' in truth:
        is_map = 'm' in truth
        if k != 'spec' or bs['spec'].get('s') not in (('hashmap', 'btreemap') if is_map else ('hashset', 'btreeset')):
            if k == 'spec_none':
                want0 = truth['m'] if is_map else truth['set']
                if not want0 and _raw_len_zero(bs.get('orig')):
                    out.append((path, 'note-empty-shown-raw', ''))
                    return [o for o in out if o[1] != 'note-empty-shown-raw'] if False else out
                out.append((path, 'unavailable', 'collection not interpreted'))
            else:
                out.append((path, 'kind-mismatch', f'{"map" if is_map else "set"} vs {brief(bs)}'))
            return out
        shown = bs['spec']['kv'] if is_map else bs['spec']['items']
        want = truth['m'] if is_map else truth['set']
        used = [False] * len(shown)
        missing = 0
        for w in want:
            hit = False
            for i, s in enumerate(shown):
                if used[i]:
                    continue
                if is_map:
                    if not hard(match(s[0], w[0], '', [])) and not hard(match(s[1], w[1], '', [])):
                        used[i] = hit = True
                        break
                else:
                    if not hard(match(s, w, '', [])):
                        used[i] = hit = True
                        break
            if not hit:
                missing += 1
        extra = used.count(False)
        if missing:
            out.append((path, 'missing-elements', f'{missing} of {len(want)} elements the program holds are not shown'))
        if extra:
            out.append((path, 'invented-or-duplicated-elements', f'{extra} shown elements are not in the collection ({len(shown)} shown, {len(want)} held)'))
        return out
    out.append((path, 'oracle-unknown-form', str(truth)[:80]))
    return out


def hard(mism):
    """mismatches that are not mere notes"""
    return [m for m in mism if not m[1].startswith('note-')]


def _raw_len_zero(orig, depth=0):
    """an uninterpreted (raw struct) collection whose length field is 0"""
    if orig is None or depth > 3:
        return False
    if orig.get('k') == 'spec_none':
        return _raw_len_zero(orig.get('orig'), depth + 1)
    if orig.get('k') != 'struct':
        return False
    for n, x in orig.get('m', []):
        if n == 'length':
            s = _scalar(x)
            return bool(s and s.get('k') == 'scalar' and s.get('v') and str(s['v'].get('v')) == '0')
        if n == 'map' and _raw_len_zero(x, depth + 1):
            return True
    return False


def brief(bs):
    if bs is None:
        return 'None'
    k = bs.get('k')
    if k == 'scalar':
        return f'scalar {bs.get("v")}'
    if k == 'spec':
        return f'spec {bs["spec"].get("s")}'
    return f'{k} {(bs.get("ty") or {}).get("name")}'


_PATH_SEG = re.compile(r'(?:[A-Za-z_][A-Za-z0-9_]*::)+')


def norm_type(name):
    """normalise a type name for comparison: drop module paths, default allocator / hasher, lifetimes"""
    if name is None:
        return None
    s = name
    s = s.replace("'static ", '')
    s = _PATH_SEG.sub('', s)
    for d in (', Global', ', RandomState'):
        s = s.replace(d, '')
    s = s.replace('NonZeroU32', 'NonZero<u32>')
    s = s.replace(' ', '')
    return s


def contains_undecoded_enum(bs):
    """does the lowered tree hold an enum for which the debugger shows no variant"""
    if isinstance(bs, dict):
        if bs.get('k') == 'enum' and bs.get('variant') is None:
            return True
        return any(contains_undecoded_enum(x) for x in bs.values())
    if isinstance(bs, list):
        return any(contains_undecoded_enum(x) for x in bs)
    return False
