#!/usr/bin/env python3
"""Regenerates /verif/MANIFEST.json from the table below (python3 mon/manifest.py)."""
import json
import os
import subprocess

ROOT = os.path.dirname(os.path.dirname(os.path.abspath(__file__)))

CHECKS = {
    'C01': dict(
        technique='runtime monitoring: differential oracle against an independent ptrace single-step trace (offline projection check over recorded stop events)',
        text='Every breakpoint stop of seeded add/remove/continue histories on generated programs is compared with the next arrival at an '
             'active breakpoint in an independent single-step trace of the same binary at (pc, rsp, TICK); held on the executions explored, '
             'no claim beyond them.',
        note='Trusted: ptrace single-step semantics, the generator (programs are deterministic), llvm-dwarfdump for instruction-boundary '
             'addresses. Universal monitors (text integrity, pc truth, all-stop) run at every stop and report under their own property id.',
        ref='DESIGN.md §4 C01'),
    'C03': dict(
        technique='runtime monitoring: each step landing located in an independent single-step trace and judged against its shadow call stack and an llvm-dwarfdump line table',
        text='Seeded sequences of stepi/step/next/finish from random executed positions of generated programs; every landing is located by '
             '(pc, rsp, TICK) in the reference trace and checked against the definition of the step kind (k+1; return point of the activation; '
             'statement boundary no later than the first other-line boundary of the activation; never inside a callee; callee first line not '
             'skipped) and the reported place against the reference line table. Held on the executions explored except the listed known findings.',
        note='Trusted: ptrace single-step, llvm-dwarfdump line table, shadow-stack rule of the tracer. Only steps starting in generated user '
             'functions are judged. Known genuine defects are keyed by structural cause in known_findings.json.',
        ref='DESIGN.md §4 C03'),
    'C02': dict(
        technique='runtime monitoring: text-integrity invariant hook after every command (/proc/pid/mem vs ELF files) plus output/exit-status differential against a native run',
        text='Seeded histories of valid and failing debugger commands (break/remove/continue/step kinds/watch/restart/frame/detach) over generated '
             'programs with and without signals; after every command every file-backed executable mapping is diffed against its file and the '
             'differing bytes must be exactly the enabled user breakpoints plus the two documented internal ones; final output and exit status '
             'must equal the native run. Held on the histories explored.',
        note='Trusted: /proc/pid/mem and /proc/pid/maps, the ELF reader for e_entry and _dl_debug_state, the native run as the reference of '
             'what the program computes.',
        ref='DESIGN.md §4 C02'),
    'C05': dict(
        technique='runtime monitoring: backtrace compared with the shadow call stack of an independent single-step trace and with raw stack words',
        text='At stops reached by breakpoints and steps (incl. recursion depth up to 300) the backtrace instruction pointers must equal '
             '[pc] + the return addresses of the calls in progress according to the reference tracer, down to _start; CFA and return address of '
             'frame_info must match the real stack slot; argument reads after frame selection must show that activation. Held on the stops '
             'explored (after the fix commit for the recursion truncation).',
        note='Trusted: shadow-stack rule of the reference tracer (call = push of next-instruction address + jump), /proc/pid/mem. Single-threaded '
             'programs here; other threads are covered by the C09 workload.',
        ref='DESIGN.md §4 C05'),
    'C09': dict(
        technique='runtime monitoring: online checker over stop events against the debuggee\'s own per-thread atomic counters and kernel task states (double sample), under stress schedules, CPU pinning and seeded tracer delay points',
        text='Generated programs with 2-64 threads in overlapping waves race to line, function and single-instruction breakpoints; at every '
             'reported stop all kernel tasks must be in tracing stop in two samples 2 ms apart with unchanged counters, the thread list must equal '
             '/proc/<pid>/task, and the reporting thread\'s own BEFORE/EXEC/AFTER counters must equal the number of arrivals reported for it so far; '
             'at exit every thread was reported exactly K times and output and exit status equal the native run. Held on the schedules explored; '
             'step commands among running threads are a separate leg whose anomalies are listed known findings.',
        note='Trusted: SeqCst counters maintained by the debuggee, /proc task states (a task past PTRACE_EVENT_EXIT is polled until it is gone), '
             'the native run. Evidence reports the number of distinct stop orders and of stops with a sibling parked on a breakpoint byte.',
        ref='DESIGN.md §4 C09'),
    'C10': dict(
        technique='runtime monitoring: conservation checker (handler executions counted by the debuggee = signals really sent by an external sender that avoids kernel coalescing) plus exactly-once matching of reported signal stops, per scenario class',
        text='Handler-counting multi-thread programs receive thread- and process-directed signals of 12 kinds (quiet, non-quiet, SIGINT) from an '
             'external sender in six scenario classes (one/many while running, bursts pending while stopped for different or the same thread, '
             'pending on a thread that sits on a breakpoint, during stepi/step/next); at a final stop and at exit handler executions must equal '
             'sends per kind and per target thread, every non-quiet send must have exactly one reported stop naming its target, quiet kinds none, '
             'SIGINT one stop and no delivery. Held for the running classes; the other classes expose the listed known findings.',
        note='Trusted: the debuggee\'s async-signal-safe atomic counters, /proc SigPnd/ShdPnd used by the sender to avoid coalesced sends, '
             'cancellable heartbeat signals that end a blocking resume. Each run uses one scenario class so that defects of one class cannot leak '
             'into another; known findings are keyed by (class, failure kind).',
        ref='DESIGN.md §4 C10'),
    'C11': dict(
        technique='runtime monitoring: post-condition monitors over teardown/restart histories (process table, independent PTRACE_SEIZE inspection of released processes, /proc/pid/mem vs ELF, stop-sequence and exit-status comparison with the native run)',
        text='Histories ending in drop / quit / detach / restart at every kind of stop (not started, breakpoint, after a step, with a watchpoint, '
             'signal stop, exited) for launched and for attached (externally started, ASLR on) single- and 8-thread programs: no process may be '
             'left for launched programs; a released attached process must be alive, untraced, not stopped, without enabled debug-register slots, '
             'with text equal to the ELF files, and must finish with the native output and exit status; after restart breakpoint numbers and '
             'addresses are unchanged and the stop sequence equals that of a fresh run; reported exit codes (0, 1, 2, 101 by panic, 255) equal the '
             'native status. Held on the histories explored (after the fix commit for the not-started teardown).',
        note='Trusted: /proc, an independent ptrace seize (reftrace inspect) for the debug registers of released processes, the native run.',
        ref='DESIGN.md §4 C11'),
    'C14': dict(
        technique='runtime monitoring: invariant monitor after every command (independent PTRACE_PEEKUSER of DR0-7 of every thread, decoded per the SDM, vs watchpoint_list() and a model) plus an exhaustive run of the DR7 encoder against the SDM formula',
        text='Seeded histories of add (address / global expression / local expression) / refusable requests (fifth, same address, size 3, misaligned) '
             '/ remove (number, address, expression) / continue / restart over six locations of programs that create threads while the history '
             'runs; after every command the enabled slots decoded from the registers of every kernel thread must equal the debugger\'s list and '
             'the model, refusals must leave registers, list and text unchanged, local watchpoints vanish at their end-of-scope stop, global ones are '
             're-armed after restart; the encoder is checked on all 2^20 prior images x slot x condition x size. The "every write stops once" clause '
             'is inconclusive here: the VM does not deliver hardware data breakpoints (probed at run time).',
        note='Trusted: SDM vol. 3 17.2.4 DR7 layout in the monitor\'s decoder, PTRACE_PEEKUSER. Held on the histories explored after three fix commits.',
        ref='DESIGN.md §4 C14'),
    'C17': dict(
        technique='runtime monitoring: differential oracle (result sets of the live debugger vs an independent llvm-dwarfdump / nm reference) plus a reference-model monitor of the path-suffix index over random and bounded-exhaustive operation sequences',
        text='For generated binaries with colliding and near-miss module, file and function names and generics with three instantiations, every '
             'suffix and every near-miss (character added/dropped, partial component, extra component) of every function path and file path is '
             'given to set_breakpoint_at_fn / set_breakpoint_at_line, and unique-token regexes to get_symbols; the selected set must equal the '
             'functions / files / ELF symbols denoted according to the reference. The crate-private index (re-exported under feature verif) is run '
             'against a naive list model on random sequences with duplicate paths and on all 3-path sets over a 3-letter alphabet.',
        note='Trusted: llvm-dwarfdump DIE parent chains, nm, the 15-line legacy demangler of the monitor (unique tokens only).',
        ref='DESIGN.md §4 C17'),
    'C15': dict(
        technique='runtime monitoring: differential oracle on every memory/register operation (kernel view via /proc/pid/mem before and after, raw PTRACE_GETREGS, the value stored by the program\'s own asm, llvm-objdump boundaries); DAP leg with a byte model over readMemory/writeMemory/setVariable',
        text='Random reads at every alignment and length (word and page crossings, tails before an unmapped page, ranges starting in a hole), '
             'word writes with boundary values into a mapped region and into a static between guard words, writes of boundary values into the '
             'callee-saved registers inside a probe function, and disassembly with breakpoints inside the function: a read must equal the '
             'kernel\'s bytes (error only when part of the range is unmapped), a write must change exactly [a, a+8), a register write must show in '
             'raw GETREGS, in a read back and in what the program stores, disassembly must keep llvm-objdump boundaries without int3. The real bs '
             'DAP adapter is driven with readMemory/writeMemory at all offsets and lengths and setVariable/setExpression read-backs.',
        note='Trusted: /proc/<pid>/mem, PTRACE_GETREGS, llvm-objdump. Held on the operations explored after the fix commit for the tail read.',
        ref='DESIGN.md §4 C15'),
    'C19': dict(
        technique='runtime monitoring: reference-model monitor (generator-owned static scope model and per-activation values) over every marker stop and every selected frame of generated programs',
        text='Generated programs with nested blocks, shadowing, sibling blocks, variables declared after the stop and a recursive function stop in '
             'marker(id); the caller frame is selected and var locals / arg all / var <name> are compared with the scope model of that marker: all '
             'live bindings listed with their values, nothing declared later or in a sibling block, shadowed names resolve to the innermost live '
             'binding; in the recursion every frame (also after instruction steps changed the stack depth) shows its own activation; at '
             'opt-level 1 a shown value must be right. Held at opt-level 0 except the shadowing known finding; opt-level 1 exposes known findings.',
        note='Trusted: the generator evaluates the same wrapping u64 arithmetic as the program. At opt-level 1 only shown values are judged, not '
             'the set of listed names (the DWARF lexical blocks need not follow the source).',
        ref='DESIGN.md §4 C19'),
    'C16': dict(
        technique='runtime monitoring: before/after state monitor around every injected call (full PTRACE_GETREGS/GETFPREGS of all threads, text diff, maps, red zone bytes, the callee\'s own argument log) plus output differential against the native run',
        text='At stops in a leaf with locals below rsp, in a loop, in live floating point code, in a worker thread and with the main thread blocked '
             'in a futex, `call f a1..an` with boundary literals must add exactly one entry with exactly those arguments to the log the functions '
             'write and leave registers of every thread (incl. orig_rax and the FXSAVE area), code bytes, the memory map and the 128 bytes below rsp '
             'identical; impossible calls (unknown function, wrong arity, string/float literal, ill-typed argument) must fail with identical state; '
             'the program then produces its native output; vard equals the program\'s own {:?} lines. Held after the red-zone fix commit.',
        note='Trusted: raw ptrace register reads and /proc by the monitor, the log the called functions write, the native run.',
        ref='DESIGN.md §4 C16'),
    'C18': dict(
        technique='runtime monitoring: conservation checker (stops reported in library code = the library\'s own hit counter = calls made after the request) with relocated addresses, arguments, backtraces and the sharedlib list compared against /proc/pid/maps + nm',
        text='A generated cdylib is linked at start-up or loaded two or three times with generated dlopen/dlclose sequences by PIE and non-PIE '
             'hosts; function and line breakpoints on library code are requested before start, after the load, while the library is unloaded, '
             'and again after an earlier load; every stop in library code must lie inside the relocated function, show the argument the host '
             'passed, unwind through the library into the host frames, and the stops must account for every call made after the request; '
             'sharedlib info must equal the mapped executable objects. Held except the known finding (no re-arming after dlclose + dlopen '
             'without a new request); non-PIE after the fix commit.',
        note='Trusted: /proc/<pid>/maps, nm symbol values and sizes, the library\'s SeqCst hit counter, the native run.',
        ref='DESIGN.md §4 C18'),
    'C12': dict(
        technique='runtime monitoring: offline protocol checker over the recorded byte stream of the real adapter (own framing parser; request/response matching, sequence order, event exactly-once and causal order) under stress output, thread churn and seeded delay points between sequence allocation and transport write',
        text='Seeded histories of 12-60 requests from a DAP grammar (valid, ill-formed arguments: missing / ill-typed / huge / negative, repeated, '
             'out-of-order, pipelined, pre-emptive cancel, after program exit) against the real bs adapter over TCP while the debuggee prints bursts '
             'of stdout/stderr around every stop and starts and joins threads; the wire stream must have sequence numbers 1,2,3,... in wire order, '
             'exactly one response per request with matching request_seq and command, one `stopped` per resume or pause, exited before '
             'terminated, nothing after terminated, thread start before use and exit once, and an error response (then a working `threads` canary) '
             'for every ill-formed request. Held after the sequence fix except the two known findings.',
        note='Trusted: the monitor\'s framing parser and bookkeeping of what it sent. Evidence reports messages, output events and the adjacency kinds '
             'of response/event/output messages observed.',
        ref='DESIGN.md §4 C12'),
    'C13': dict(
        technique='runtime monitoring: reference-model monitor (the program\'s known event sequence replayed against the latest breakpoint sets and their options) over the stopped/output events of the real adapter, with differential request timing',
        text='Seeded histories of setBreakpoints / setFunctionBreakpoints / setInstructionBreakpoints requests with conditions, hit conditions and '
             'log messages, made before the program starts, at stops and after restart, on a program whose events per iteration are known (entry '
             'instruction and first body line of two functions, a later body line, a generic function with three instantiations, an inlined '
             'helper): every `stopped` event (identified by the top frame AND the program\'s own iteration counter, read from /proc/pid/mem) must be the next '
             'stop of the model for the latest sets, log points must produce exactly their outputs and never stop, `verified` must be true '
             'exactly for locations with code. Held on the histories explored after five fix commits (all locations of a line recorded, bare '
             'variable name as condition, first stop after restart, records keyed by breakpoint number); no known finding is left.',
        note='Trusted: determinism of the generated program and its event order. Violation signatures carry the location kind (single / multi) and '
             'when the offending record was created, so that a defect of one timing class cannot hide one of another.',
        ref='DESIGN.md §4 C13'),
    'C08': dict(
        technique='runtime monitoring: crash / hang / out-of-bounds oracle (process survival, panic location, watchdog with reproduction, feature-gated bounds probes at the unchecked reads, canary query) over grammar-derived and mutated hostile inputs; thorough tier adds the same live workload against an AddressSanitizer build of the worker (nightly -Zsanitizer=address)',
        text='Four workloads: 30 000 console command lines and data query expressions derived from the grammar and mutated (digit runs of 1-40 '
             'characters, huge hex, brackets nested up to 200 deep, unicode, NULs); ~1 300 live queries at a stop (out-of-range indices, inverted '
             'and huge slices, keys of wrong shape or arity, zero-sized types, and type casts aiming every collection type at poison pages: all-ones, '
             'self-referential, cyclic, huge lengths, pointer/len/cap triples, the last bytes before an unmapped page); the same through the console '
             'of the real bs in a pseudo-terminal; malformed DAP envelopes followed by a canary. Every input must end in a result or an error with the '
             'process alive, the bounds probes silent and the canary answering. Held after the nine fix commits. Thorough tier (or VERIF_ASAN=1) rebuilds '
             'the worker with AddressSanitizer and repeats the live queries: any report (heap overflow, use after free, SEGV) is a violation keyed by '
             'error kind and first BugStalker frame; a scratch over-read in scalar_from_bytes was reported at once, the unchanged tree is silent.',
        note='A crash is keyed by its panic location, a hang counts only if it reproduces on a fresh worker, other watchdog expiries are inconclusive. '
             'Evidence reports probe evaluations (millions per run) to show that the unchecked reads are reached.',
        ref='DESIGN.md §4 C08'),
    'C06': dict(
        technique='runtime monitoring: structural comparison of the debugger\'s Value trees with the debuggee\'s own canonical self-description (reference model = safe Rust in the program)',
        text='Generated programs hold ~40 variables each (locals, statics, thread-locals, arguments) from a recursive type grammar with boundary '
             'values and collections built by operation histories (tombstoned and dense hash tables, wrapped VecDeque rings; every program also holds a B-tree map and set of 150-700 entries (three or more levels) and a hash '
             'table of that size); '
             'every Value tree returned by the debugger is compared with what the program prints about itself: scalars bit-exact, sequences in '
             'order, sets/maps as multisets, enum variant and payload, pointer targets. Thorough tier (or VERIF_ASAN=1) repeats the comparison '
             'with the AddressSanitizer build of the worker (readers of hashbrown tables, B-trees, Rc/Arc on well-formed data). Held on the '
             'variables explored except the known findings.',
        note='Trusted: the Canon trait implementations in the generated program (safe Rust iteration) and the native run. Slices are shown by '
             'BugStalker as (data_ptr, length); only those facts are judged for slices.',
        ref='DESIGN.md §4 C06'),
    'C04': dict(
        technique='runtime monitoring: differential oracle, every lookup answer of the live debugger compared with an independent DWARF decode (llvm-dwarfdump / llvm-objdump)',
        text='For every generated binary of the configuration matrix every instruction boundary of every user function is resolved to '
             'function and file:line, every source line and every function name is turned into breakpoint addresses, and the answers are '
             'compared with the reference decode: governing row for a pc, statements of the line (or the next line) with one address per '
             'function instance, prologue-end address inside the function. A second leg compiles a library crate whose generic functions are '
             'instantiated in the binary, so that one source file has code in two compilation units, and asks for every line of it. Held on '
             'the binaries explored except the known finding.',
        note='Trusted: llvm-dwarfdump line table / DIE ranges, llvm-objdump instruction boundaries. Only user compilation units are judged; '
             'function names are accepted in either DIE-path or demangled-linkage form.',
        ref='DESIGN.md §4 C04'),
    'C07': dict(
        technique='runtime monitoring: round-trip oracle for the parser (generator-owned AST vs parsed AST) and a reference model of the documented operators over recorded ground truth',
        text='Random expression trees (depth <= 5, all literal forms) are printed canonically with random whitespace/parentheses and must parse '
             'back to the same tree; type-directed expressions over generated programs are evaluated at a stop and compared with a small model '
             'of the documented operators (index, key lookup with wildcards, set membership, in-range slices, deref, *&, (~v).len, field), '
             'including operators that do not apply (must give no result). Held on the inputs explored except the known finding.',
        note='Trusted: the generator\'s printer and the 100-line operator model, which encodes only what print.mdx documents; the program\'s own '
             'canonical output as ground truth.',
        ref='DESIGN.md §4 C07'),
}

NOT_APPLICABLE = {
    'C20': 'no tokio crate or tokio debuggee exists in the sealed sandbox, so no execution with a tokio runtime can be produced or observed (DESIGN.md §10)',
}

PENDING = {}


def main():
    props = [json.loads(l)['id'] for l in open(os.path.join(ROOT, 'properties.jsonl'))]
    commits = subprocess.run(['git', '-C', '/repo', 'log', '--format=%H %s'], stdout=subprocess.PIPE, text=True).stdout.splitlines()
    hook_commits = [c.split()[0] for c in commits if 'verif hooks' in c]
    checks = []
    for p in props:
        if p not in CHECKS:
            continue
        c = CHECKS[p]
        checks.append({
            'property_id': p,
            'quick_cmd': f'./check {p} --tier quick',
            'thorough_cmd': f'./check {p} --tier thorough',
            'evidence_file': f'evidence/{p}.json',
            'replay_cmd_template': f'./check {p} --replay {{path}}',
            'engine': 'bsmon',
            'level_claimed': {'category': 'exploration', 'text': c['text'], 'design_ref': c['ref']},
            'level_note': c['note'],
            'technique': c['technique'],
        })
    na = []
    for p in props:
        if p in CHECKS:
            continue
        if p in NOT_APPLICABLE:
            na.append({'property_id': p, 'reason': NOT_APPLICABLE[p]})
        else:
            na.append({'property_id': p, 'reason': PENDING.get(p, 'not claimed yet: the runtime monitor for this property is still being built (no check registered)')})
    m = {
        'version': 1,
        'setup_cmd': 'cd /verif && python3 mon/setup.py',
        'hooks': {
            'guard': 'cargo feature `verif` of the bugstalker crate (off by default)',
            'enable': 'harness/bsmon depends on bugstalker with features=["verif"]; the bs binary is built with `cargo build --release --features verif`',
            'baseline_off_cmd': 'cd /repo && cargo nextest run --workspace --no-fail-fast --test-threads 8 --offline || cargo test --workspace --no-fail-fast --offline',
            'source_commits': hook_commits,
            'add_only': True,
        },
        'engines': [
            {'name': 'bsmon', 'path': 'harness/bsmon', 'serves_properties': sorted(CHECKS),
             'kind_free_text': 'worker process hosting the real bugstalker::Debugger; executes JSON command histories and returns hook events plus raw ptrace/procfs observations'},
            {'name': 'reftrace', 'path': 'harness/reftrace', 'serves_properties': ['C01', 'C03', 'C05', 'C13'],
             'kind_free_text': 'independent ptrace single-step tracer with a disassembler-free shadow call stack (reference execution)'},
            {'name': 'mon', 'path': 'mon', 'serves_properties': sorted(CHECKS),
             'kind_free_text': 'python orchestrator: generators, reference DWARF decoder over llvm-dwarfdump, offline checkers, evidence writer'},
        ],
        'checks': checks,
        'not_applicable': na,
        'notes': 'Runtime monitoring only. Verdicts are three-valued per case (violated / held / inconclusive); see DESIGN.md.',
    }
    with open(os.path.join(ROOT, 'MANIFEST.json'), 'w') as f:
        json.dump(m, f, indent=1)
    print('MANIFEST.json written:', len(checks), 'checks,', len(na), 'not claimed')


if __name__ == '__main__':
    main()
