"""C16: injected calls run once and leave no trace.

At stop positions of generated programs (a leaf with locals below rsp, a loop, live floating point code, a worker
thread, and the main thread blocked in a syscall while a worker is stopped) the monitor snapshots, independently
of the debugger: every register of every thread (PTRACE_GETREGS incl. orig_rax, hash of the FXSAVE area), the
text diff against the ELF files, /proc/<pid>/maps, the 128 bytes below rsp and the call log the functions write.
`call f a1..an` must add exactly one log entry with exactly the given arguments and leave everything else
identical; calls that cannot be made (unknown function, wrong arity, unsupported literal) must fail with identical
state; the program then runs on to its native output. `vard` output must equal the program's own {:?} line.
"""
import os
import sys

sys.path.insert(0, os.path.dirname(os.path.dirname(os.path.abspath(__file__))))
from gen import call  # noqa: E402
from . import common, corpus  # noqa: E402
from .common import Verdict, rng_for  # noqa: E402
from .session import Session, Crash  # noqa: E402

TMO = 60
MON = {'thr': False, 'dr': False, 'text': True, 'regs': True}
INT_BOUND = {'u64': [0, 1, 2 ** 63, 2 ** 64 - 1], 'i64': [0, -1, 2 ** 63 - 1, -2 ** 63], 'u32': [0, 2 ** 32 - 1, 77], 'i32': [0, -1, 2 ** 31 - 1, -2 ** 31],
             'u16': [0, 65535, 3], 'i16': [-1, 32767, -32768], 'u8': [0, 255, 9], 'i8': [-1, 127, -128]}


def signext(val, ty):
    bits = int(ty[1:])
    val &= (1 << bits) - 1
    if ty[0] == 'i' and val >> (bits - 1):
        val -= 1 << bits
    return val & (2 ** 64 - 1)


def literal_for(ty, rng):
    """(literal text, value the function logs)"""
    if ty == 'bool':
        b = rng.choice([True, False])
        return ('true' if b else 'false'), int(b)
    if ty == '*const u8':
        a = rng.choice([0x1000, 0x7fff_ffff_f000, 0xdead_beef0])
        return hex(a), a
    val = rng.choice(INT_BOUND[ty] + [rng.randint(0, 100)])
    if val >= 2 ** 63:
        val = rng.choice([v for v in INT_BOUND[ty] if v < 2 ** 63])   # the literal grammar holds i64
    return str(val), signext(val, ty)


def snapshot(S, b, tid):
    r = S.cmd('mon', mon=False, **{'thr': False, 'dr': False, 'text': True, 'regs': True, 'bps': False, 'ecx': False})
    m = r.get('ok') or {}
    regs = m.get('regs') or {}
    rsp = (regs.get(str(tid)) or {}).get('rsp')
    below = S.peek(rsp - 128, 128) if rsp else None
    maps = S.w.cmd('maps').get('ok')
    n = S.peek_u64(b.sym_addr('LOGN'))
    log = S.peek(b.sym_addr('LOG'), 8 * 8 * 256)
    return {'regs': regs, 'text': (m.get('text') or {}).get('diff'), 'below_rsp': below.hex() if below else None, 'maps': maps, 'logn': n, 'log': log}


def diff_state(a, b):
    out = []
    for tid in a['regs']:
        ra, rb = a['regs'].get(tid) or {}, b['regs'].get(tid) or {}
        for k in ra:
            if ra.get(k) != rb.get(k):
                out.append(f'reg:{k}')
    if a['text'] != b['text']:
        out.append('text')
    if a['below_rsp'] != b['below_rsp']:
        out.append('bytes-below-rsp')
    if a['maps'] != b['maps']:
        out.append('maps')
    return sorted(set(out))


def run_case(spec):
    idx, cfgd, tier = spec
    v = Verdict('C16', tier, '')
    src, side = call.gen(common.seed() * 100 + idx)
    b = corpus.compile_rust(f'call{idx}', src, corpus.Config(**cfgd), side)
    native = corpus.native_run(b)
    rng = rng_for(common.seed(), 'c16', idx, sorted(cfgd.items()))
    srcname = os.path.basename(b.src)
    ctx = {'binary': b.path}
    S = Session(b, v, mon=MON, timeout=TMO)
    injected = 0
    try:
        S.launch()
        lines = {'leaf': side['leaf_line'], 'loop': side['loop_line'], 'float': side['float_line'], 'thread': side['thread_line'], 'show': side['vard_line']}
        for k, ln in lines.items():
            S.cmd('break_line', file=srcname, line=ln)
        r = S.cmd('start', timeout=TMO)
        visited = 0
        while not S.exited and visited < 40:
            okv = r.get('ok') or {}
            if okv.get('stop') != 'breakpoint':
                break
            visited += 1
            tid = okv['tid']
            place = None
            for e in r.get('ev', []):
                if e.get('ev') == 'breakpoint':
                    place = (e.get('place') or {}).get('line')
            where = next((k for k, ln in lines.items() if ln == place), 'other')
            targets = [(where, tid)]
            if where == 'thread':
                # also call in the main thread, which is blocked in join (futex) while the worker is stopped
                thr = S.cmd('threads', mon=False).get('ok') or []
                main = [t for t in thr if t['tid'] == S.pid]
                if main:
                    targets.append(('main-blocked-in-syscall', main[0]))
            if where == 'show':
                # vard / argd: the program's own Debug formatting
                for var in ('p', 'v', 'o', 't'):
                    q = S.cmd('vard', expr=var, mon=False)
                    exp = [l for l in native[0].decode().splitlines() if l.startswith(f'dbg {var}=')]
                    got = [(x.get('ok') or x.get('err')) for x in (q.get('ok') or [])]
                    v.count('vard_compared')
                    if exp and (not got or got[0] is None or got[0].strip() != exp[0][len(f'dbg {var}='):].strip()):
                        v.violation('c16:vard-differs-from-program-debug-format', 'vard renders a value differently from the program\'s own {:?}',
                                    dict(ctx, var=var, got=got, expected=exp[0]))
            for tname, t in targets:
                if tname == 'main-blocked-in-syscall':
                    S.cmd('thread', num=t['num'], mon=False)
                    ctid = t['tid']
                else:
                    ctid = tid
                # ------------------------------------------------------ a successful call
                f = rng.choice(side['funcs'])
                lits, logged = [], []
                for ty in f['params']:
                    l, val = literal_for(ty, rng)
                    lits.append(l)
                    logged.append(val)
                before = snapshot(S, b, ctid)
                c = S.cmd('call', name=f['name'], args=lits, mon=False, timeout=TMO)
                after = snapshot(S, b, ctid)
                v.count('calls')
                cctx = dict(ctx, where=tname, fn=f['name'], args=lits)
                if 'ok' not in c:
                    v.violation(f'c16:valid-call-fails:{tname}', 'a call with well-typed arguments failed', dict(cctx, err=c.get('err')))
                else:
                    injected += 1
                    v.count('calls_ok')
                    fid = [x['name'] for x in side['funcs']].index(f['name'])
                    if after['logn'] != before['logn'] + 1:
                        v.violation('c16:function-did-not-run-exactly-once', 'the called function ran a number of times other than once',
                                    dict(cctx, log_before=before['logn'], log_after=after['logn']))
                    else:
                        n = before['logn'] % 256
                        ent = [int.from_bytes(after['log'][(n * 8 + i) * 8:(n * 8 + i) * 8 + 8], 'little') for i in range(7)]
                        exp = [fid] + logged + [0] * (6 - len(logged))
                        if ent != exp:
                            v.violation('c16:function-got-wrong-arguments', 'the called function saw arguments other than the given literals',
                                        dict(cctx, logged=ent, expected=exp))
                d = diff_state(before, after)
                if d:
                    v.violation(f'c16:state-not-restored-after-call:{"+".join(x.split(":")[0] for x in d)}:{tname}',
                                'registers, code bytes, memory map or the bytes below rsp differ before and after an injected call',
                                dict(cctx, differs=d))
                # ------------------------------------------------------ calls that cannot be made
                bad = rng.choice([('zq_no_such_fn', []), (f['name'], lits + ['1']), ('zc1', ['"text"']), ('zc1', ['1.5']), ('zc2', ['true', '3'])])
                before = after
                c = S.cmd('call', name=bad[0], args=bad[1], mon=False, timeout=TMO)
                after = snapshot(S, b, ctid)
                v.count('failing_calls')
                if 'ok' in c:
                    v.violation('c16:impossible-call-accepted', 'a call that cannot be made was reported as done', dict(ctx, call=bad))
                    injected += 1 if after['logn'] != before['logn'] else 0
                d = diff_state(before, after)
                if d or after['logn'] != before['logn']:
                    v.violation(f'c16:state-changed-by-failing-call:{"+".join(x.split(":")[0] for x in d) or "log"}',
                                'a failing call left registers, code, maps or the call log changed', dict(ctx, call=bad, differs=d))
                v.case(signature=('call', tname, f['name']), n=1)
                if tname == 'main-blocked-in-syscall':
                    back = [x for x in (S.cmd('threads', mon=False).get('ok') or []) if x['tid'] == tid]
                    if back:
                        S.cmd('thread', num=back[0]['num'], mon=False)
            r = S.cmd('cont', timeout=TMO)
        # ---------------------------------------------------------------- the program runs on as if nothing happened
        if S.exited:
            out, err = S.output(expect_stdout=native[0])
            exp = native[0].decode().splitlines()
            got = out.decode(errors='replace').splitlines()
            v.count('outputs_compared')
            exp_logn = int([l for l in exp if l.startswith('logn=')][0][5:]) + injected
            exp2 = [l if not l.startswith('logn=') else f'logn={exp_logn}' for l in exp]
            if got != exp2:
                v.violation('c16:program-output-differs-after-calls', 'after injected calls the program does not behave as if no call had happened (apart from the calls\' own log entries)',
                            dict(ctx, got=got[-6:], expected=exp2[-6:]))
    except Crash as c:
        loc = (c.info or {}).get('panic', {}).get('loc') if c.kind == 'panic' else (c.info or {}).get('cmd')
        if c.kind == 'hang':
            v.inconc('watchdog', dict(ctx, info=c.info))
        else:
            v.violation(f'crash:{c.kind}:{loc}', f'debugger {c.kind} on a call command', dict(ctx, info=c.info), prop='C08')
    finally:
        S.close()
    return v.export()


def main(tier):
    rule = ('case = one `call` (valid or impossible) at one stop position (leaf with locals below rsp, loop, live float code, worker thread, main '
            'thread blocked in futex) with boundary literals; full register files of all threads, text diff, maps, 128 bytes below rsp and the '
            'functions\' own argument log compared before/after; plus vard vs the program\'s {:?} output and final output vs native; '
            'distinct = distinct (position, function)')
    V = Verdict('C16', tier, rule)
    V.minima = {'calls_ok': 30, 'failing_calls': 10, 'outputs_compared': 3} if tier == 'quick' else {'calls_ok': 1200, 'failing_calls': 1200, 'outputs_compared': 150}
    V.assumptions = ['PTRACE_GETREGS / GETFPREGS / /proc/pid/maps read by the monitor are the truth; arguments are observed through the log the functions write']
    cfgs = [dict(tc='1.89', opt=0), dict(tc='1.95', opt=0)]
    n = 6 if tier == 'quick' else 200
    specs = [(i, cfgs[i % 2], tier) for i in range(n)]
    for res in common.safe_map(run_case, specs, procs=8):
        V.merge(res)
    return V.finish()
