"""C17: names select exactly the functions, files and symbols they denote.

Live leg: generated binaries with colliding and near-miss module / file / function names and generics with three
instantiations. Every suffix of every function path and file path, and near-misses of them (a component with a
character added or dropped, a partial component, an extra leading component), is given to
set_breakpoint_at_fn / set_breakpoint_at_line / get_symbols; the result set is compared with the reference:
  * functions: subprograms from llvm-dwarfdump (namespace chain from DIE parents) whose path ends with the
    template's components - every monomorphization counts, nothing else may be selected;
  * files: source files of the line table whose path ends with the template's components;
  * symbols: ELF symbols (nm) whose demangled name (own demangler for the legacy scheme) matches the regex.
Pure leg: random and bounded-exhaustive insert/query sequences on the crate's path-suffix index against a naive
list model (harness/puremon, feature `verif` re-export).
"""
import json
import os
import re
import subprocess
import sys

sys.path.insert(0, os.path.dirname(os.path.dirname(os.path.abspath(__file__))))
from gen import names  # noqa: E402
from . import common, corpus, dwarfref  # noqa: E402
from .common import Verdict, rng_for, PUREMON  # noqa: E402
from .session import Session, Crash  # noqa: E402

TMO = 60


def demangle_legacy(sym):
    """_ZN<len><comp>...E -> a::b::c::h<hash>  (plain components only; others returned unchanged)"""
    if not sym.startswith('_ZN') or not sym.endswith('E'):
        return sym
    s = sym[3:-1]
    out = []
    i = 0
    while i < len(s):
        m = re.match(r'\d+', s[i:])
        if not m:
            return sym
        n = int(m.group(0))
        i += len(m.group(0))
        out.append(s[i:i + n])
        i += n
    return '::'.join(out)


def mutate(comp, rng):
    k = rng.randrange(4)
    if k == 0 and len(comp) > 1:
        return comp[1:]
    if k == 1:
        return 'x' + comp
    if k == 2 and len(comp) > 1:
        return comp[:-1]
    return comp + 'x'


def run_case(spec):
    idx, cfgd, tier = spec
    v = Verdict('C17', tier, '')
    src, files, side = names.gen(common.seed() * 100 + idx)
    cfg = corpus.Config(**cfgd)
    b = corpus.compile_rust(f'names{idx}', src, cfg, side, files=files)
    srcs = [b.src] + [os.path.join(b.dir, f) for f in files]
    dw = dwarfref.DwarfRef(b.path, [b.src])
    rng = rng_for(common.seed(), 'c17', idx, sorted(cfgd.items()))
    crate = b.name
    # reference function list: concrete subprograms of the user CU with a zq_ name
    ref_funcs = []
    for sp in dw.subprograms:
        if sp.name and sp.name.startswith('zq_') and sp.ranges:
            ns = [c for c in sp.ns]
            # the path of a monomorphization is the path of the generic function (type arguments are not components)
            ref_funcs.append((ns + [re.sub(r'<.*>$', '', sp.name)], sp))
    ctx = {'binary': b.path, 'cfg': cfgd}
    if len(ref_funcs) < 20:
        v.inconc('reference-function-list-too-small', dict(ctx, n=len(ref_funcs)))
        return v.export()
    S = Session(b, v, mon=False, timeout=TMO)
    try:
        S.launch()
        # ------------------------------------------------------------------ function templates
        templates = set()
        for path, sp in ref_funcs:
            for k in range(1, len(path) + 1):
                suf = path[-k:]
                templates.add(tuple(suf))
                m = list(suf)
                j = rng.randrange(len(m))
                m[j] = mutate(m[j], rng)
                templates.add(tuple(m))
                templates.add(tuple(['zq_nope'] + list(suf)))
                if k > 1:
                    # partial leading component: must not match by characters
                    templates.add(tuple([suf[0][1:]] + list(suf[1:])))
        for t in sorted(templates):
            tpl = '::'.join(t)
            expected = sorted({sp.low() for path, sp in ref_funcs if len(path) >= len(t) and tuple(path[-len(t):]) == t})
            r = S.cmd('break_fn', name=tpl)
            got_addrs = []
            for vw in r.get('ok') or []:
                a = vw['addr']['addr'] - (b.base if vw['addr']['kind'] == 'relocated' else 0)
                got_addrs.append(a)
            got = set()
            stray = []
            for a in got_addrs:
                owner = [sp for path, sp in ref_funcs if sp.contains(a)]
                if owner:
                    got.add(owner[0].low())
                else:
                    stray.append(a)
            v.count('function_templates')
            if expected:
                v.count('function_templates_with_matches')
            if sorted(got) != expected or stray or len(got_addrs) != len(set(got_addrs)):
                missing = sorted(set(expected) - got)
                extra = sorted(got - set(expected))
                kind = 'miss' if missing and not extra else 'extra' if extra and not missing else 'miss-and-extra' if missing else 'stray-address'
                gen = any(f.get('generic') and tuple(f['path'][-len(t):]) == t for f in side['funcs'] if len(f['path']) >= len(t))
                v.violation(f'c17:function-template:{kind}:{"generic" if gen else "plain"}',
                            'a function template selects a set of functions different from those whose path ends with its components',
                            dict(ctx, template=tpl, expected=[hex(x) for x in expected], got=[hex(x) for x in sorted(got)], stray=stray[:4],
                                 err=r.get('err')))
            S.cmd('remove_fn', name=tpl)
            v.case(signature=('fn', len(t), len(expected)), n=1)
        # ------------------------------------------------------------------ file templates
        file_paths = [os.path.join(b.dir, f['path']) for f in side['files']]
        ftemplates = set()
        for fp in file_paths:
            comps = fp.strip('/').split('/')
            for k in range(1, min(len(comps), 4) + 1):
                suf = comps[-k:]
                ftemplates.add(tuple(suf))
                m = list(suf)
                j = rng.randrange(len(m))
                m[j] = mutate(m[j], rng)
                ftemplates.add(tuple(m))
                if k > 1:
                    ftemplates.add(tuple([suf[0][1:]] + suf[1:]))
        line = side['files'][0]['body_line']
        for t in sorted(ftemplates):
            tpl = '/'.join(t)
            expected = sorted(fp for fp in file_paths if tuple(fp.strip('/').split('/')[-len(t):]) == t)
            r = S.cmd('break_line', file=tpl, line=line)
            got = sorted({(vw.get('place') or {}).get('file') for vw in (r.get('ok') or [])})
            v.count('file_templates')
            if expected:
                v.count('file_templates_with_matches')
            if got != expected:
                v.violation('c17:file-template:' + ('miss' if set(expected) - set(got) else 'extra'),
                            'a file template selects source files other than those whose path ends with its components',
                            dict(ctx, template=tpl, expected=expected, got=got, err=r.get('err')))
            S.cmd('remove_line', file=tpl, line=line)
            v.case(signature=('file', len(t), len(expected)), n=1)
        # ------------------------------------------------------------------ symbols
        nm = subprocess.run(['nm', b.path], stdout=subprocess.PIPE, text=True).stdout
        syms = []
        for l in nm.splitlines():
            p = l.split()
            if len(p) == 3 and 'zq_' in p[2]:
                syms.append((demangle_legacy(p[2]) or p[2], int(p[0], 16)))
        regexes = ['zq_f', r'zq_f::h', r'::zq_b::zq_f::', r'zq_gen', r'^' + crate + r'::zq_a::zq_f::', r'zq_x[ab]', r'zq_in_file', r'zq_nope',
                   r'zq_a::zq_b::zq_a', r'zq_(top|g)::', r'zq_gen2::h[0-9a-f]+$', r'zq_b_f',
                   # thread-locals, plain and exported data objects
                   r'zq_tls', r'zq_tls_depth', r'zq_static', r'^zq_static_exported$']
        for rx in regexes:
            cre = re.compile(rx)
            expected = sorted(a for (n, a) in syms if cre.search(n))
            r = S.cmd('symbols', regex=rx)
            got = sorted(s['addr'] for s in (r.get('ok') or []))
            v.count('symbol_regexes')
            if got != expected:
                v.violation('c17:symbols:' + ('miss' if len(got) < len(expected) else 'extra'),
                            'symbol <regex> lists a set of symbols different from the ELF symbols whose demangled name matches',
                            dict(ctx, regex=rx, expected=[hex(x) for x in expected], got=[hex(x) for x in got], err=r.get('err'),
                                 names=[s['name'] for s in (r.get('ok') or [])][:8]))
            v.case(signature=('sym', rx), n=1)
    except Crash as c:
        loc = (c.info or {}).get('panic', {}).get('loc') if c.kind == 'panic' else (c.info or {}).get('cmd')
        if c.kind == 'hang':
            v.inconc('watchdog', dict(ctx, info=c.info))
        else:
            v.violation(f'crash:{c.kind}:{loc}', f'debugger {c.kind} on a name query', dict(ctx, info=c.info), prop='C08')
    finally:
        S.close()
    return v.export()


def main(tier):
    rule = ('case = one query: a function template, a file template or a symbol regex built from every suffix and near-miss of the function '
            'and file paths of a generated binary; result set compared with the llvm-dwarfdump subprogram list / line-table file list / nm; '
            'plus random and bounded-exhaustive index sequences against a naive model; distinct = distinct (kind, template length, matches)')
    V = Verdict('C17', tier, rule)
    V.minima = {'function_templates': 150, 'file_templates': 30, 'symbol_regexes': 20, 'pure_index_queries': 10000} if tier == 'quick' else \
        {'function_templates': 3000, 'file_templates': 600, 'symbol_regexes': 300, 'pure_index_queries': 2000000}
    V.assumptions = ['namespace chains come from DIE parents in llvm-dwarfdump output, independent of any demangler',
                     'symbol regexes are restricted to generated unique tokens so that demangler dialects cannot differ']
    # pure leg
    nseq = 300 if tier == 'quick' else 40000
    r = subprocess.run([PUREMON, 'pathindex', str(common.seed()), str(nseq)], stdout=subprocess.PIPE, text=True, timeout=1800)
    try:
        pj = json.loads(r.stdout)
        V.count('pure_index_queries', pj['queries'])
        V.count('pure_index_queries_with_matches', pj['queries_with_matches'])
        V.count('pure_index_inserts', pj['inserts'])
        V.case(signature='pure-index', n=1)
        for viol in pj['violations']:
            V.violation('c17:pure-index:result-differs-from-model', 'the path-suffix index returns a set different from the naive suffix model', viol)
    except Exception as e:
        V.inconc('pure-leg-failed', r.stdout[-300:] + str(e))
    cfgs = [dict(tc='1.89', opt=0, dwarf=4), dict(tc='1.95', opt=0, dwarf=5), dict(tc='1.89', opt=1, dwarf=5)]
    n = 3 if tier == 'quick' else 40
    specs = [(i, cfgs[i % 3], tier) for i in range(n)]
    for res in common.safe_map(run_case, specs, procs=8):
        V.merge(res)
    return V.finish()
