"""C11: start, restart, exit, quit and detach leave the world in the promised state.

One predicate per clause of the property, evaluated on histories that end in drop / quit / detach / restart at
every kind of stop:

 * launched programs: after the debugger is dropped (or its process quits) the debuggee pid and all its
   threads are gone (absent from /proc, or a zombie that disappears within the patience window);
 * attached programs (started natively by the monitor with ASLR on, gated on a file): after detach, or after
   quitting/dropping the debugger, the process is alive, not traced (TracerPid 0), not stopped, every thread
   has DR7 = 0 (read by an independent PTRACE_SEIZE), its text equals the ELF files, and once released it runs
   to completion with the native output and exit status;
 * restart: same breakpoint numbers and places before and after, the stop sequence of the re-created process
   equals the expected sequence of a fresh run, and the old process is gone;
 * exit: the code reported by DebugeeExit equals the native exit status (0, 1, 2, 101 from a panic, 255).
"""
import json
import os
import subprocess
import time

from . import common, mtlib, elfutil
from .common import Verdict, rng_for, REFTRACE
from .session import Session, Crash

MON = {'thr': False, 'dr': False, 'text': True}
TMO = 60


def pid_state(pid):
    try:
        st = open(f'/proc/{pid}/stat').read()
    except OSError:
        return None
    return st[st.rfind(')') + 2]


def wait_gone(pid, patience=3.0):
    """None if the pid disappeared (or is a zombie that got reaped) within patience, else its state"""
    t0 = time.time()
    while True:
        s = pid_state(pid)
        if s is None:
            return None
        if time.time() - t0 > patience:
            return s
        time.sleep(0.01)


def external_text_diff(pid):
    """[(addr, mem, file, path)] for every byte of a file-backed executable mapping that differs from its file"""
    out = []
    try:
        maps = open(f'/proc/{pid}/maps').read()
        mem = open(f'/proc/{pid}/mem', 'rb', buffering=0)
    except OSError:
        return None
    for line in maps.splitlines():
        p = line.split()
        if len(p) < 6 or 'x' not in p[1] or not p[5].startswith('/'):
            continue
        a, b = [int(x, 16) for x in p[0].split('-')]
        off = int(p[2], 16)
        try:
            f = open(p[5], 'rb')
            f.seek(off)
            fb = f.read(b - a)
            mem.seek(a)
            mb = mem.read(len(fb))
        except OSError:
            continue
        if mb != fb:
            for i in range(min(len(mb), len(fb))):
                if mb[i] != fb[i]:
                    out.append((a + i, mb[i], fb[i], p[5]))
                    if len(out) > 16:
                        return out
    return out


def inspect(pid):
    r = subprocess.run([REFTRACE, 'inspect', str(pid)], stdout=subprocess.PIPE, text=True, timeout=30)
    try:
        return json.loads(r.stdout)
    except Exception:
        return {'alive': None, 'raw': r.stdout[-200:]}


# ---------------------------------------------------------------------------------------------- launched


def reach_state(S, P, state, v, rng):
    """drive a launched session into `state`; returns False if the state could not be reached"""
    if state == 'not-started':
        return True
    r = S.cmd('break_line', file=P.src, line=P.side['site_line'])
    if len(r.get('ok') or []) != 1:
        return False
    if state == 'exited':
        S.cmd('remove_num', num=r['ok'][0]['num'], mon=False)
        r = S.cmd('start', timeout=TMO)
        return S.exited
    r = S.cmd('start', timeout=TMO)
    if (r.get('ok') or {}).get('stop') != 'breakpoint':
        return False
    for _ in range(rng.randint(0, 2)):
        r = S.cmd('cont', timeout=TMO)
        if (r.get('ok') or {}).get('stop') != 'breakpoint':
            return False
    if state == 'breakpoint':
        return True
    if state == 'after-step':
        r = S.cmd(rng.choice(['stepi', 'stepi', 'step']), timeout=TMO)
        return 'ok' in r
    if state == 'watchpoint':
        r = S.cmd('watch_mem', addr=P.ctr + 8 * rng.randrange(4), size=8, cond=rng.choice(['w', 'rw']))
        return 'ok' in r
    if state == 'signal-stop':
        S.w.cmd('remove_num', num=1)
        for b in (S.w.cmd('bps').get('ok') or []):
            S.w.cmd('remove_num', num=b['num'])
        S.w.cmd('kill_signal', sig=10, delay_us=2000)
        r = S.cmd('cont', timeout=TMO)
        return (r.get('ok') or {}).get('stop') == 'signal'
    return False


def case_teardown(spec):
    _, idx, state, kind, shape, tier = spec
    v = Verdict('C11', tier, '')
    P = mtlib.program(idx, signals=(state == 'signal-stop'), wait_external=(state == 'signal-stop'), **shape)
    rng = rng_for(common.seed(), 'c11', idx, state, kind)
    S = Session(P.b, v, mon=MON, timeout=TMO)
    ctx = {'binary': P.b.path, 'state': state, 'teardown': kind, 'shape': shape}
    try:
        S.launch()
        pid = S.pid
        if not reach_state(S, P, state, v, rng):
            v.inconc('state-not-reached', ctx)
            return v.export()
        tids = [int(t) for t in os.listdir(f'/proc/{pid}/task')] if os.path.isdir(f'/proc/{pid}/task') else [pid]
        if kind == 'drop':
            r = S.w.cmd('drop', timeout=TMO)
            if 'panic' in r:
                raise Crash('panic', {'cmd': 'drop', 'panic': r['panic']})
        else:
            S.w.close(timeout=TMO)
        left = wait_gone(pid)
        v.count('teardowns')
        v.count(f'teardown_{state}')
        if left is not None:
            v.violation(f'c11:process-left-behind:{state}:{kind}', 'a launched debuggee is still there after the debugger was dropped / quit',
                        dict(ctx, pid=pid, state_in_proc=left, history=[h.get('cmd') for h in S.history[-10:]]))
        v.case(signature=('teardown', state, kind, shape['n']), sample=dict(ctx, threads=len(tids), left=left))
    except Crash as c:
        loc = (c.info or {}).get('panic', {}).get('loc') if c.kind == 'panic' else (c.info or {}).get('cmd')
        if c.kind == 'hang':
            v.inconc('watchdog', dict(ctx, info=c.info))
        else:
            v.violation(f'c11:debugger-{c.kind}:{state}:{loc}', f'debugger {c.kind} during start/teardown',
                        dict(ctx, info=c.info, history=[h.get('cmd') for h in S.history[-10:]]))
    finally:
        S.close()
    return v.export()


# ---------------------------------------------------------------------------------------------- restart / exit code


def case_restart(spec):
    _, idx, when, exit_kind, tier = spec
    v = Verdict('C11', tier, '')
    kw = dict(n=1, waves=1, k=5, perturb=False)
    if exit_kind == 'panic':
        kw['panic_exit'] = True
    else:
        kw['exit_code'] = exit_kind
    P = mtlib.program(idx, **kw)
    native = P.native
    rng = rng_for(common.seed(), 'c11r', idx, when, exit_kind)
    S = Session(P.b, v, mon=MON, timeout=TMO)
    ctx = {'binary': P.b.path, 'restart_at': when, 'exit': exit_kind}
    K = P.K
    try:
        S.launch()
        r1 = S.cmd('break_line', file=P.src, line=P.side['site_line'])
        asm = P.asm_addr()
        r2 = S.cmd('break_addr', addr=asm)
        if len(r1.get('ok') or []) != 1 or 'ok' not in r2:
            v.inconc('breakpoints-not-set', str((r1, r2))[:300])
            return v.export()
        site = r1['ok'][0]['addr']['addr'] + (P.b.base if r1['ok'][0]['addr']['kind'] == 'global' else 0)
        expected = [site, asm] * K

        def bp_table():
            out = []
            for b in (S.w.cmd('bps').get('ok') or []):
                a = b['addr']['addr'] + (P.b.base if b['addr']['kind'] == 'global' else 0)
                out.append((b['num'], a))
            return sorted(out)

        def run(upto):
            """continue until `upto` breakpoint stops were seen or exit; returns (pcs, exit code or None)"""
            pcs = []
            code = None
            r = S.cmd('cont' if S.started and not S.exited else 'start', timeout=TMO)
            while True:
                okv = r.get('ok') or {}
                if okv.get('stop') == 'breakpoint':
                    pcs.append(okv['pc'])
                    if len(pcs) >= upto:
                        break
                elif okv.get('stop') == 'exit':
                    code = okv.get('code')
                    break
                else:
                    v.violation('c11:unexpected-stop-in-restart-run', 'unexpected stop or error while running between restarts',
                                dict(ctx, reply=str(r)[:300]))
                    break
                r = S.cmd('cont', timeout=TMO)
            return pcs, code

        before_tbl = bp_table()
        j = {'before-start': 0, 'not-started': 0, 'first-stop': 1, 'middle': rng.randint(2, 2 * K - 1), 'exited': 10 ** 6}[when]
        pcs, code = ([], None) if j == 0 else run(j)
        if j and pcs != expected[:min(j, 2 * K)]:
            v.violation('c11:first-run-stop-sequence', 'stop sequence of the first run differs from the expected one',
                        dict(ctx, got=pcs[:12], expected=expected[:12]))
        if when == 'exited':
            v.count('exit_codes_checked')
            if code != P.side['exit_code'] or native[2] != P.side['exit_code']:
                v.violation('c11:exit-code-differs', 'exit code reported by the debugger differs from the native exit status',
                            dict(ctx, reported=code, native=native[2], generator=P.side['exit_code']))
        old_pid = S.pid
        pids_seen = {S.pid}
        if when == 'before-start':
            r = S.cmd('start', timeout=TMO)   # start, then restart at the first stop
            pcs = [(r.get('ok') or {}).get('pc')]
        # when == 'not-started': restart of a program that was never started (the forked child waits before exec)
        r = S.cmd('restart', timeout=TMO)
        if 'ok' not in r:
            v.violation(f'c11:restart-failed:{when}', 'restart returned an error', dict(ctx, err=r.get('err')))
            return v.export()
        v.count('restarts')
        new_pid = r['ok']['pid']
        left = wait_gone(old_pid) if new_pid != old_pid else None
        if left is not None:
            v.violation(f'c11:old-process-left-after-restart:{when}', 'the previous process still exists after restart',
                        dict(ctx, pid=old_pid, state_in_proc=left))
        after_tbl = bp_table()
        if after_tbl != before_tbl:
            v.violation(f'c11:breakpoints-changed-by-restart:{when}', 'breakpoint numbers/addresses/places differ before and after restart',
                        dict(ctx, before=before_tbl, after=after_tbl))
        # the re-created process is stopped at its first breakpoint (restart runs it): account that stop
        first = []
        for e in r.get('ev', []):
            if e.get('ev') == 'breakpoint':
                first.append(e['pc'])
        pcs2, code2 = run(10 ** 6)
        seq = first + pcs2
        v.count('restart_stop_sequences_checked')
        if seq != expected:
            v.violation(f'c11:stop-sequence-after-restart:{when}', 'after restart the breakpoints do not hit again at the same places',
                        dict(ctx, got=[hex(x) for x in seq[:14]], expected=[hex(x) for x in expected[:14]], n_got=len(seq), n_expected=len(expected)))
        v.count('exit_codes_checked')
        if code2 != P.side['exit_code']:
            v.violation('c11:exit-code-differs', 'exit code reported by the debugger differs from the native exit status',
                        dict(ctx, reported=code2, native=native[2], generator=P.side['exit_code'], after_restart=True))
        out, err = S.output(wait=0.5)
        # every process the debugger ever created for this program must be gone once the debugger is dropped
        pids_seen.add(new_pid)
        S.w.cmd('drop', timeout=TMO)
        for p_ in sorted(pids_seen):
            left = wait_gone(p_)
            v.count('restart_pids_checked_after_drop')
            if left is not None:
                v.violation(f'c11:process-left-behind:after-restart:{when}', 'a process created by the debugger (an earlier incarnation before a restart) is still there after the debugger was dropped',
                            dict(ctx, pid=p_, state_in_proc=left, pids=sorted(pids_seen)))
        v.case(signature=('restart', when, exit_kind), sample=dict(ctx, stops_after=len(seq), code=code2))
    except Crash as c:
        loc = (c.info or {}).get('panic', {}).get('loc') if c.kind == 'panic' else (c.info or {}).get('cmd')
        if c.kind == 'hang':
            v.inconc('watchdog', dict(ctx, info=c.info))
        else:
            v.violation(f'c11:debugger-{c.kind}:restart:{loc}', f'debugger {c.kind} during restart', dict(ctx, info=c.info))
    finally:
        S.close()
    return v.export()


# ---------------------------------------------------------------------------------------------- attached


def case_attached(spec):
    _, idx, state, kind, shape, tier = spec
    v = Verdict('C11', tier, '')
    P = mtlib.program(idx, wait_external=(state != 'restart'), **shape)
    P0 = mtlib.program(idx, **shape)      # same program without the parking loop: reference output
    native = P0.native
    rng = rng_for(common.seed(), 'c11a', idx, state, kind)
    gate = os.path.join(P.b.dir, f'gate-{os.getpid()}-{idx}-{state}-{kind}')
    try:
        os.unlink(gate)
    except OSError:
        pass
    env = common.fixed_env({'VERIF_GATE': gate})
    ext = subprocess.Popen([P.b.path], stdin=subprocess.DEVNULL, stdout=subprocess.PIPE, stderr=subprocess.PIPE, env=env, cwd=P.b.dir)
    time.sleep(0.05)
    S = Session(P.b, v, mon=False, timeout=TMO)
    ctx = {'binary': P.b.path, 'state': state, 'release': kind, 'shape': shape}
    try:
        r = S.cmd('attach', mon=False, pid=ext.pid, timeout=TMO)
        if 'ok' not in r:
            v.inconc('attach-failed', str(r)[:300])
            return v.export()
        S.pid = ext.pid
        S.started = True
        ok_state = True
        if state in ('breakpoint', 'after-step', 'watchpoint', 'restart'):
            rb = S.cmd('break_line', mon=False, file=P.src, line=P.side['site_line'])
            ok_state = len(rb.get('ok') or []) == 1
            open(gate, 'w').close()
            r = S.cmd('cont', mon=False, timeout=TMO)
            ok_state = ok_state and (r.get('ok') or {}).get('stop') == 'breakpoint'
            if ok_state and state == 'after-step':
                ok_state = 'ok' in S.cmd('stepi', mon=False, timeout=TMO)
            if ok_state and state == 'watchpoint':
                # the address of CTR in the attached (ASLR) process: from the breakpoint's relocated address
                base = r['ok']['pc'] - (rb['ok'][0]['addr']['addr'] if rb['ok'][0]['addr']['kind'] == 'global' else rb['ok'][0]['addr']['addr'] - P.b.base)
                ctr = P.b.symbols().get('CTR') + base
                ok_state = 'ok' in S.cmd('watch_mem', mon=False, addr=ctr + 16, size=8, cond='w')
        if not ok_state:
            v.inconc('state-not-reached', dict(ctx, reply=str(r)[:200]))
            return v.export()
        if state == 'restart':
            # restart of an attached program re-creates it as a launched process with the breakpoints intact
            r = S.cmd('restart', mon=False, timeout=TMO)
            v.count('restarts')
            v.count('attached_restarts')
            if 'ok' not in r:
                v.violation('c11:restart-failed:attached', 'restart of an attached program returned an error', dict(ctx, err=r.get('err')))
                return v.export()
            bps = S.w.cmd('bps').get('ok') or []
            hit = [e for e in r.get('ev', []) if e.get('ev') == 'breakpoint']
            n = len(hit)
            rr = r
            guard = 0
            while not S.exited and guard < 200:
                guard += 1
                rr = S.cmd('cont', mon=False, timeout=TMO)
                okv = rr.get('ok') or {}
                if okv.get('stop') == 'breakpoint':
                    n += 1
                elif okv.get('stop') != 'exit':
                    break
            exp = P.T * P.K
            if len(bps) != 1 or n != exp:
                v.violation('c11:breakpoints-lost-by-restart:attached', 'after restarting an attached program its user breakpoints are not intact / do not hit again',
                            dict(ctx, breakpoints=len(bps), hits=n, expected_hits=exp))
            v.case(signature=('attached-restart', shape['n']), sample=dict(ctx, hits=n))
            return v.export()
        # ------------------------------------------------------------ release
        if kind == 'detach':
            r = S.cmd('detach', mon=False, timeout=TMO)
            if 'ok' not in r:
                v.violation('c11:detach-failed', 'detach returned an error', dict(ctx, err=r.get('err')))
                return v.export()
        elif kind == 'drop':
            S.w.cmd('drop', timeout=TMO)
        else:
            S.w.close(timeout=TMO)
        time.sleep(0.02)
        v.count('attached_released')
        info = inspect(ext.pid)
        v.count('attached_inspected')
        bad = []
        if not info.get('alive'):
            bad.append('process-not-alive')
        else:
            if info.get('tracer') != '0':
                bad.append('still-traced')
            st = (info.get('state') or '?')[0]
            if st in ('t', 'T', 'Z', 'X'):
                bad.append(f'state-{st}')
            for th in info.get('threads', []):
                dr = th.get('dr') or []
                if len(dr) >= 8 and dr[7] & 0xFF != 0:   # an enabled slot (L0..G3); stale RW/LEN bits of a disabled slot are not a breakpoint
                    bad.append('dr7-not-clear')
                    break
            td = external_text_diff(ext.pid)
            if td:
                bad.append('text-differs-from-elf')
        if 'state-Z' in bad:
            try:
                ext.wait(timeout=2)
            except Exception:
                pass
            info['returncode'] = ext.returncode
        for b in bad:
            v.violation(f'c11:released-process:{b}:{state}:{kind}', 'an attached process is not left alive, untraced, running, with original code and clear debug registers',
                        dict(ctx, inspect=info, history=[h.get('cmd') for h in S.history[-8:]]))
        if not bad:
            open(gate, 'w').close()
            # let the parked workers go: GO lives at load base + symbol value in the externally started (ASLR) process
            try:
                base = None
                for line in open(f'/proc/{ext.pid}/maps'):
                    if line.rstrip().endswith(P.b.path):
                        base = int(line.split('-')[0], 16)
                        break
                deadline = time.time() + 10
                while time.time() < deadline:
                    with open(f'/proc/{ext.pid}/mem', 'r+b', buffering=0) as m:
                        m.seek(base + P.b.symbols()['PHASE'])
                        if int.from_bytes(m.read(8), 'little') >= P.T:
                            m.seek(base + P.b.symbols()['GO'])
                            m.write((1).to_bytes(8, 'little'))
                            break
                    time.sleep(0.01)
            except Exception as e:
                v.inconc('could-not-release-parked-program', str(e))
            try:
                out, err = ext.communicate(timeout=30)
                v.count('attached_completions_compared')
                if out != native[0] or ext.returncode != native[2]:
                    v.violation(f'c11:released-process:does-not-finish-natively:{state}:{kind}', 'after release the program does not run to its native output and exit status',
                                dict(ctx, rc=ext.returncode, native_rc=native[2], out=out[-300:].decode('latin1'), expected=native[0][-300:].decode('latin1')))
            except subprocess.TimeoutExpired:
                v.violation(f'c11:released-process:does-not-finish-natively:{state}:{kind}', 'after release the program does not finish (still stopped or stuck)',
                            dict(ctx, proc_state=pid_state(ext.pid)))
        v.case(signature=('attached', state, kind, shape['n']), sample=dict(ctx, inspect_state=info.get('state'), threads=len(info.get('threads', []))))
    except Crash as c:
        loc = (c.info or {}).get('panic', {}).get('loc') if c.kind == 'panic' else (c.info or {}).get('cmd')
        if c.kind == 'hang':
            v.inconc('watchdog', dict(ctx, info=c.info))
        else:
            v.violation(f'c11:debugger-{c.kind}:attached:{loc}', f'debugger {c.kind} with an attached process', dict(ctx, info=c.info))
    finally:
        S.close()
        try:
            ext.kill()
            ext.wait(timeout=5)
        except Exception:
            pass
        try:
            os.unlink(gate)
        except OSError:
            pass
    return v.export()


def run_case(spec):
    return {'teardown': case_teardown, 'restart': case_restart, 'attached': case_attached}[spec[0]](spec)


def _prep(spec):
    try:
        if spec[0] == 'restart':
            kw = dict(n=1, waves=1, k=5, perturb=False)
            if spec[3] == 'panic':
                kw['panic_exit'] = True
            else:
                kw['exit_code'] = spec[3]
            mtlib.program(spec[1], **kw).native
        elif spec[0] == 'teardown':
            mtlib.program(spec[1], signals=(spec[2] == 'signal-stop'), wait_external=(spec[2] == 'signal-stop'), **spec[4]).native
        else:
            mtlib.program(spec[1], wait_external=(spec[2] != 'restart'), **spec[4])
            mtlib.program(spec[1], **spec[4]).native
    except Exception as e:
        return str(e)


def main(tier):
    rule = ('case = one history ending in drop / quit / detach / restart at one kind of stop (not started, breakpoint, after a step, with a '
            'watchpoint, signal stop, exited) for a launched or an attached (externally started, ASLR) single- or multi-threaded program; '
            'checked: no process left / released process alive, untraced, running, DR7 clear, text = ELF, finishes natively / breakpoints '
            'and stop sequence identical after restart / reported exit code = native; distinct = distinct (kind, state, teardown, threads)')
    V = Verdict('C11', tier, rule)
    V.minima = {'teardowns': 15, 'restarts': 5, 'attached_inspected': 5, 'exit_codes_checked': 5} if tier == 'quick' else \
        {'teardowns': 50, 'restarts': 40, 'attached_inspected': 25, 'exit_codes_checked': 40}
    V.assumptions = ['"no process" = pid absent from /proc, or a zombie that disappears, within 3 s', 'death by signal is excluded from the exit-code clause']
    specs = []
    reps = 1 if tier == 'quick' else 3
    shapes = [dict(n=1, waves=1, k=4), dict(n=8, waves=1, k=3)]
    i = 0
    for rep in range(reps):
        for state in ('not-started', 'breakpoint', 'after-step', 'watchpoint', 'signal-stop', 'exited'):
            for kind in ('drop', 'quit'):
                for shape in shapes:
                    if tier == 'quick' and (i % 2 == 0) and state in ('after-step', 'watchpoint'):
                        i += 1
                        continue
                    specs.append(('teardown', rep * 10 + (i % 3), state, kind, shape, tier))
                    i += 1
        for when in ('not-started', 'before-start', 'first-stop', 'middle', 'exited'):
            for ek in ((0, 1, 2, 'panic', 255) if tier == 'thorough' or when == 'exited' else (rep % 3,)):
                specs.append(('restart', 50 + rep, when, ek, tier))
        for state in ('just-attached', 'breakpoint', 'after-step', 'watchpoint'):
            for kind in ('detach', 'drop', 'quit'):
                shape = shapes[(i + rep) % 2]
                i += 1
                specs.append(('attached', 70 + rep, state, kind, shape, tier))
        for shape in shapes:
            specs.append(('attached', 70 + rep, 'restart', 'restart', shape, tier))
    common.parallel_map(_prep, specs)
    for res in common.safe_map(run_case, specs, procs=8):
        V.merge(res)
    return V.finish()
