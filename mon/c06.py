"""C06: values shown are the values the program holds.

Ground truth: the program's own canonical rendering of every variable (safe Rust, trait Canon),
taken from a native run. The debugger's `Value` trees (lowered by the worker from the public enum,
no rendering code involved) are compared structurally: scalars bit-exact, sequences in order, sets
and maps as multisets (nothing missing, duplicated or invented), enum variant + payload, pointer
targets after deref.
"""
import os

from . import common, valslib, valcmp
from .common import Verdict
from .session import Session, Crash, MON_LIGHT


def has_128(t):
    if t['k'] == 'int' and t['t'] in ('i128', 'u128'):
        return True
    for key in ('inner', 'key', 'val', 'ok', 'err'):
        if key in t and has_128(t[key]):
            return True
    if any(has_128(x) for x in t.get('items', [])):
        return True
    if any(has_128(f[1]) for f in t.get('fields', [])):
        return True
    if t['k'] == 'enum':
        for name, shape, fields in t['variants']:
            if any(has_128(f[1] if shape == 'struct' else f) for f in fields):
                return True
    return False


def is_zst(t):
    k = t['k']
    if k == 'unit':
        return True
    if k == 'array':
        return t['n'] == 0 or is_zst(t['inner'])
    if k == 'tuple':
        return all(is_zst(x) for x in t['items'])
    if k == 'struct':
        return all(is_zst(f[1]) for f in t['fields'])
    if k == 'cenum':
        return len(t.get('variants') or []) == 1        # a field-less enum with one variant has no bytes
    if k == 'cell':
        return is_zst(t['inner'])                       # Cell<T> is transparent over T
    return False


def has_single_variant_cenum(t):
    """does the type tree contain a field-less enum with exactly one variant (a zero-sized type)?"""
    if isinstance(t, dict):
        if t.get('k') == 'cenum' and len(t.get('variants') or []) == 1:
            return True
        return any(has_single_variant_cenum(x) for x in t.values())
    if isinstance(t, (list, tuple)):
        return any(has_single_variant_cenum(x) for x in t)
    return False


def single_variant_cenum_names(t, out=None):
    out = set() if out is None else out
    if isinstance(t, dict):
        if t.get('k') == 'cenum' and len(t.get('variants') or []) == 1:
            out.add(t.get('name'))
        for x in t.values():
            single_variant_cenum_names(x, out)
    elif isinstance(t, (list, tuple)):
        for x in t:
            single_variant_cenum_names(x, out)
    return out


def undecoded_enum_names(bs, out=None):
    """type names of the enums for which the debugger shows no variant"""
    out = set() if out is None else out
    if isinstance(bs, dict):
        if bs.get('k') == 'enum' and bs.get('variant') is None:
            out.add((bs.get('ty') or {}).get('name'))
        for x in bs.values():
            undecoded_enum_names(x, out)
    elif isinstance(bs, list):
        for x in bs:
            undecoded_enum_names(x, out)
    return out


def judge_var(v, name, bsval, truth, typ, ctx, counts):
    kinds = valslib.type_kinds(typ['type'])
    for k in kinds:
        counts['kind_' + k] = counts.get('kind_' + k, 0) + 1
    v.count('variables_compared')
    mism = valcmp.match(bsval, truth)
    notes = [m for m in mism if m[1].startswith('note-')]
    for m in notes:
        v.count(m[1])
    mism = [m for m in mism if not m[1].startswith('note-')]
    if mism:
        path, cls, det = mism[0]
        top = typ['type']['k']
        if cls != 'enum-undecoded' and has_128(typ['type']) and valcmp.contains_undecoded_enum(bsval):
            cls = 'enum-undecoded'
        # a zero-sized single-variant enum is shown without its variant (known finding); as an element of a set or a key of a map
        # it then matches nothing the program holds: same cause, if every undecoded enum in the shown tree is such a type
        und = undecoded_enum_names(bsval)
        if cls in ('wrong-variant', 'enum-undecoded', 'missing-elements', 'invented-or-duplicated-elements') and und \
                and und <= single_variant_cenum_names(typ['type']):
            cls = 'enum-undecoded-zero-sized-single-variant'
            top = 'any'
        if cls == 'enum-undecoded':
            wide = has_128(typ['type'])
            cls = 'enum-undecoded-128-bit-discriminant' if wide else 'enum-undecoded'
            top = 'any' if wide else top
        # which type in the tree is involved: the deepest kind named in the mismatch class
        v.violation(f'c06:{cls}:{top}:{typ["kind"]}', 'the value shown by the debugger differs from the value the program holds',
                    dict(ctx, var=name, mismatches=mism[:6], type=typ['type'], truth=str(truth)[:600], shown=str(bsval)[:1500]))
        return False
    return True


def run_case(spec):
    idx, cfg, tier = spec[:3]
    asan = len(spec) > 3 and spec[3]       # the same comparison with the AddressSanitizer build of the worker
    v = Verdict('C06', tier, '')
    try:
        prep = valslib.prepare(idx, **cfg)
    except Exception as e:
        v.inconc('prepare-failed', str(e)[-300:])
        return v.export()
    okk, why = prep.oracle_ok()
    if not okk:
        v.inconc('oracle-unusable', why)
        return v.export()
    src = os.path.basename(prep.b.src)
    S = Session(prep.b, v, mon=MON_LIGHT, sanitized=asan, timeout=240 if asan else 60)
    counts = {}
    ctx = {'binary': prep.b.path, 'src': prep.b.src, 'cfg': cfg}
    if asan:
        ctx['worker'] = 'AddressSanitizer build'
    try:
        S.launch()
        r1 = S.cmd('break_line', file=src, line=prep.side['mark_line'])
        r2 = S.cmd('break_line', file=src, line=prep.side['argmark_line'])
        if 'ok' not in r1 or 'ok' not in r2:
            v.inconc('marker-breakpoint-failed', str(r1.get('err') or r2.get('err')))
            return v.export()
        r = S.cmd('start')
        if (r.get('ok') or {}).get('stop') != 'breakpoint':
            v.inconc('did-not-reach-marker', str(r)[:200])
            return v.export()
        loc = S.cmd('locals', mon=False, deref=3, timeout=120)
        if 'ok' not in loc:
            v.violation('c06:locals-error', f'reading local variables failed: {loc.get("err")}', ctx)
            return v.export()
        shown = {}
        for item in loc['ok']:
            shown.setdefault(item['name'], []).append(item)
        nvars = 0
        for var in prep.side['vars']:
            name = var['name']
            if var['kind'] == 'local':
                got = shown.get(name)
                if not got and is_zst(var['type']):
                    v.count('zst_not_listed')
                    continue
                if not got:
                    v.violation(f'c06:not-listed:{var["type"]["k"]}:local', 'an initialised in-scope local variable is not shown',
                                dict(ctx, var=name, type=var['type']))
                    continue
                if len(got) > 1:
                    v.violation('c06:listed-twice:local', 'a local variable is listed more than once', dict(ctx, var=name))
                judge_var(v, name, got[0]['value'], prep.truth[name], var, ctx, counts)
                nvars += 1
                # type name
                tn = (got[0]['value'].get('ty') or {}).get('name') if got[0]['value'] else None
                want = valslib.vals.G(None).rust_type(var['type'])
                v.count('type_names_compared')
                if valcmp.norm_type(tn) != valcmp.norm_type(want):
                    v.count('type_name_differences')
                    counts.setdefault('_typenames', []).append((want, tn))
                    import re
                    if valcmp.norm_type(tn) == re.sub(r';\s*\d+\]', ']', valcmp.norm_type(want)):
                        tcls = 'array-length-missing'
                    else:
                        tcls = 'other'
                    v.violation(f'c06:type-name:{tcls}', 'the type name shown is not the Rust type name of the variable',
                                dict(ctx, var=name, shown=tn, rust=want))
            elif var['kind'] in ('static', 'tls'):
                rr = S.cmd('var', mon=False, expr=name, deref=3)
                got = rr.get('ok') or []
                if len(got) != 1:
                    v.violation(f'c06:not-shown:{var["kind"]}', f'a {var["kind"]} variable cannot be read by name',
                                dict(ctx, var=name, reply=str(rr)[:300]))
                    continue
                judge_var(v, name, got[0]['value'], prep.truth[name], var, ctx, counts)
                nvars += 1
        r = S.cmd('cont')
        if (r.get('ok') or {}).get('stop') == 'breakpoint':
            ar = S.cmd('arg', mon=False, deref=3)
            shown = {i['name']: i for i in (ar.get('ok') or [])}
            for var in prep.side['vars']:
                if var['kind'] != 'arg':
                    continue
                if var['name'] not in shown and is_zst(var['type']):
                    # rustc describes a zero-sized argument as an unnamed DW_TAG_formal_parameter plus a DW_TAG_variable of that
                    # name: there is no parameter of this name in the binary's DWARF for the debugger to list
                    v.count('zst_not_listed')
                    continue
                if var['name'] not in shown:
                    v.violation(f'c06:not-listed:{var["type"]["k"]}:arg', 'a function argument is not shown', dict(ctx, var=var['name'], reply=str(ar)[:300]))
                    continue
                judge_var(v, var['name'], shown[var['name']]['value'], prep.truth[var['name']], var, ctx, counts)
                nvars += 1
        else:
            v.inconc('did-not-reach-arg-marker')
        tn = counts.pop('_typenames', [])
        for k_, n_ in counts.items():
            v.count(k_, n_)
        v.case(signature=('c06', idx, tuple(sorted(cfg.items()))),
               sample={'program': src, 'cfg': cfg, 'variables': nvars, 'type_name_differences': tn[:5],
                       'example': {prep.side['vars'][5]['name']: str(prep.truth.get(prep.side['vars'][5]['name']))[:200]}})
        v.count('asan_programs_clean' if asan else 'programs')
        if asan:
            v.count('asan_variables_compared', nvars)
    except Crash as c:
        reports = (c.info or {}).get('sanitizer') or []
        if reports:
            from .c08 import asan_signature
            kind, frame = asan_signature(reports[0])
            v.violation(f'c06:asan:{kind}:{frame}', 'AddressSanitizer reported a memory error inside the debugger while it read well-formed program data',
                        dict(ctx, history=S.history[-6:], report=reports[0][:5000]), prop='C08')
        elif asan and c.kind == 'hang':
            v.inconc('slow-under-sanitizer', S.history[-1:])
        else:
            v.violation(f'crash:{c.kind}:{(c.info or {}).get("panic", {}).get("loc") if c.kind == "panic" else (c.info or {}).get("cmd")}',
                        f'debugger {c.kind} while reading variables', {'info': c.info, 'history': S.history[-10:], 'binary': prep.b.path}, prop='C08')
    finally:
        S.close()
    return v.export()


def _prep(p):
    idx, cfg = p
    try:
        valslib.prepare(idx, **dict(cfg))
    except Exception as e:
        return str(e)


def main(tier):
    rule = ('case = generated program with ~40 variables (locals, statics, thread-locals, arguments) drawn from a recursive type grammar with '
            'boundary values and collections built by operation histories, per toolchain; every variable\'s Value tree is compared with the '
            'program\'s own canonical output; distinct = distinct (program, config)')
    V = Verdict('C06', tier, rule)
    V.minima = {'variables_compared': 150, 'kind_hashmap': 3, 'kind_btreemap': 3, 'kind_vecdeque': 3, 'kind_enum': 3} if tier == 'quick' else \
        {'variables_compared': 8000, 'kind_hashmap': 300, 'kind_btreemap': 300, 'kind_vecdeque': 300, 'kind_enum': 300}
    V.assumptions = ['ground truth is what safe Rust code in the debuggee prints about its own variables in a native run',
                     'slices are shown by the debugger as (data_ptr, length): only those two facts are compared for slices',
                     'type names are compared after dropping module paths, default allocator/hasher parameters and lifetimes (counted, not judged)']
    if tier == 'quick':
        specs = [(i, dict(tc=('1.89' if i % 2 == 0 else '1.95'), opt=0, dwarf=4, pie=True), tier) for i in range(8)]
    else:
        specs = [(i, dict(tc=tc, opt=0, dwarf=(4 if i % 3 else 5), pie=True), tier) for i in range(120) for tc in ('1.89', '1.95')]
    common.parallel_map(_prep, sorted({(s[0], tuple(sorted(s[1].items()))) for s in specs}))
    for res in common.safe_map(run_case, specs):
        V.merge(res)
    # the readers of hashbrown tables, B-trees, VecDeque, Rc/Arc ... again on the AddressSanitizer build of the worker
    if common.asan_wanted(tier):
        if common.asan_ready():
            V.minima['asan_variables_compared'] = 100 if tier == 'quick' else 1500
            for res in common.safe_map(run_case, [s + (True,) for s in specs[:(4 if tier == 'quick' else 60)]], procs=8):
                V.merge(res)
        else:
            V.inconc('asan-worker-not-built', 'the AddressSanitizer build of the worker is missing or older than the plain worker')
    return V.finish()
