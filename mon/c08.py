"""C08: no input can crash, hang or corrupt the debugger.

Four workloads, each observed by the same oracle - the worker / adapter process must survive (no panic message,
no abort, no watchdog expiry), the feature-gated bounds probes at the unchecked reads must stay silent, and a
canary query must still answer correctly afterwards:
  (a) parser: console command lines and data query expressions derived from the grammar and mutated (digit runs
      of 1..40 characters, huge hex, negative numbers, brackets nested 1..200 deep, unicode, NULs, truncations);
  (b) live queries at a stop: out-of-range indices, inverted and huge slices, keys of the wrong shape or arity,
      deref / field / index chains that do not apply, zero-sized types, and `(T)addr` casts that aim every
      collection type at every poison page (all-ones, self-referential, cyclic, huge lengths, pointer/len/cap
      triples, the last bytes before an unmapped page, unmapped and null addresses); memory reads of huge counts;
  (c) the same hostile queries through the console of the real `bs` in a pseudo-terminal (sample);
  (d) DAP: envelope-level garbage (not JSON, not an object, missing or ill-typed seq/type/command) followed by a
      `threads` canary on the same connection.
"""
import json
import os
import pty
import re
import select
import subprocess
import sys
import time

sys.path.insert(0, os.path.dirname(os.path.dirname(os.path.abspath(__file__))))
from gen import poison  # noqa: E402
from . import common, corpus  # noqa: E402
from .common import Verdict, rng_for, Worker, WorkerDead, WorkerTimeout  # noqa: E402
from .session import Session, Crash  # noqa: E402
from .dap import Dap, DapDead  # noqa: E402

CMDS = ['break {a}', 'b {f}:{n}', 'break remove {n}', 'b r {a}', 'break info', 'run', 'r', 'continue', 'c', 'stepi', 'step', 'next', 'finish',
        'frame info', 'frame switch {n}', 'f switch {n}', 'var {e}', 'var locals', 'vard {e}', 'arg {e}', 'arg all', 'argd {e}', 'bt', 'bt all',
        'backtrace all', 'symbol {s}', 'watch {e}', 'watch +rw {e}', 'watch +w {a}:{n}', 'w remove {n}', 'w r {a}:{n}', 'watch info',
        'memory read {a}', 'mem read {a}', 'memory write {a} {a}', 'register read {r}', 'reg write {r} {a}', 'register info',
        'thread info', 'thread switch {n}', 'thread current', 'sharedlib info', 'source asm', 'source fn', 'source {n}', 'async bt', 'async backtrace all',
        'async task {s}', 'async stepover', 'async finish', 'trigger any', 'trigger b {n}', 'trigger w {n}', 'trigger info', 'call {f} {n} {n}',
        'oracle {s}', 'help', 'h {s}', 'help break']


def hostile_number(rng):
    k = rng.randrange(10)
    if k == 0:
        return '9' * rng.randint(1, 40)
    if k == 1:
        return '0x' + 'f' * rng.randint(1, 40)
    if k == 2:
        return '-' + str(rng.getrandbits(rng.randint(1, 80)))
    if k == 3:
        return str(2 ** rng.choice([31, 32, 63, 64, 128]) + rng.choice([-1, 0, 1]))
    if k == 4:
        return '0x'
    if k == 5:
        return '0' * rng.randint(1, 30) + '7'
    if k == 6:
        return str(rng.randint(0, 9)) + '.' + '0' * rng.randint(0, 20) + str(rng.randint(0, 9))
    if k == 7:
        return '1e' + str(rng.randint(0, 400))
    return str(rng.randint(0, 300))


def hostile_expr(rng, depth=0):
    names = ['x', 'v', 'a_b', 'self', 'r#type', 'ns::path::name', 'αβγ', 'x\x00y', '']
    k = rng.randrange(14) if depth < 6 else 0
    if k == 0:
        return rng.choice(names)
    e = hostile_expr(rng, depth + 1)
    n = hostile_number(rng)
    if k == 1:
        return f'{e}[{n}]'
    if k == 2:
        return f'{e}[{n}..{hostile_number(rng)}]'
    if k == 3:
        return f'*{e}'
    if k == 4:
        return f'&{e}'
    if k == 5:
        return f'~{e}'
    if k == 6:
        return f'({e}).{rng.choice(["0", "len", "field", n])}'
    if k == 7:
        return f'{e}[{{{n}, *, "k"}}]'
    if k == 8:
        return f'{e}[Key{{a: {n}, b: *}}]'
    if k == 9:
        return f'({rng.choice(["*const u8", "&u32", "*mut T<U, V>", "", "*"])}){hostile_number(rng)}'
    if k == 10:
        d = rng.randint(1, 200)
        return '(' * d + e + ')' * rng.choice([d, d - 1, d + 1])
    if k == 11:
        d = rng.randint(1, 200)
        return e + '[0]' * d
    if k == 12:
        return f'{e}["{rng.choice(["k", "", "zz" * 50, chr(0)])}"]'
    return f'{e}..{n}'


def mutate_text(t, rng):
    k = rng.randrange(6)
    if not t:
        return t
    i = rng.randrange(len(t))
    if k == 0:
        return t[:i]
    if k == 1:
        return t[:i] + rng.choice(['\x00', '\t', ' ', 'é', '😀', '"', "'", '\\', '[', ')', '{']) + t[i:]
    if k == 2:
        return t[:i] + t[i:] * 2
    if k == 3:
        return t.replace(' ', rng.choice(['  ', '\t', '']), 1)
    if k == 4:
        return t + ' ' + hostile_number(rng)
    return t.upper() if rng.random() < 0.5 else t[::-1]


def gen_cmd(rng):
    t = rng.choice(CMDS)
    t = t.replace('{a}', hostile_number(rng) if rng.random() < 0.7 else '0x7fffffffdc90')
    t = t.replace('{n}', hostile_number(rng))
    t = t.replace('{f}', rng.choice(['main', 'a::b::c', 'src/main.rs', 'αβ', '', 'f' * 300]))
    t = t.replace('{e}', hostile_expr(rng))
    t = t.replace('{s}', rng.choice(['.*', '[', '(a', 'x{99999999}', '', 'tokio']))
    t = t.replace('{r}', rng.choice(['rax', 'rip', 'xmm0', 'r99', '', 'eflags']))
    if rng.random() < 0.35:
        t = mutate_text(t, rng)
    return t


def parser_case(spec):
    idx, n, tier = spec
    v = Verdict('C08', tier, '')
    rng = rng_for(common.seed(), 'c08p', idx)
    w = Worker()
    try:
        cmds = [gen_cmd(rng) for _ in range(n)]
        exprs = [hostile_expr(rng) if rng.random() < 0.8 else mutate_text(hostile_expr(rng), rng) for _ in range(n)]
        for kind, texts in (('parse_cmds', cmds), ('parse_exprs', exprs)):
            for off in range(0, len(texts), 500):
                chunk = texts[off:off + 500]
                try:
                    r = w.cmd(kind, texts=chunk, timeout=60)
                except WorkerTimeout:
                    # find the input that hangs: retry one by one with a fresh worker, 10 s each
                    w.kill()
                    culprit = None
                    for t in chunk:
                        w2 = Worker()
                        try:
                            w2.cmd(kind, texts=[t], timeout=10)
                        except (WorkerTimeout, WorkerDead):
                            culprit = t
                            w2.kill()
                            break
                        w2.close()
                    if culprit is not None:
                        v.violation(f'c08:parser-hang:{kind}', 'the parser does not return within 10 s on an input', {'input': culprit[:300]})
                    else:
                        v.inconc('parser-batch-timeout-not-reproduced')
                    w = Worker()
                    continue
                except WorkerDead:
                    v.violation(f'c08:parser-abort:{kind}', 'the parser aborted the process (stack overflow / abort)', {'sample': chunk[:3]})
                    w = Worker()
                    continue
                res = r.get('ok') or []
                v.count('parser_inputs', len(chunk))
                for t, o in zip(chunk, res):
                    if isinstance(o, dict) and 'panic' in o:
                        loc = (o['panic'] or {}).get('loc')
                        v.violation(f'crash:panic:{loc}', 'a parser panicked on an input', {'input': t[:300], 'panic': o['panic'], 'kind': kind})
                    elif o not in (None, False):
                        v.count('parser_inputs_accepted')
        c = w.cmd('parse_exprs', texts=['a.b[1]'], timeout=10)
        v.count('canaries')
        if not (c.get('ok') and c['ok'][0]):
            v.violation('c08:canary-failed-after-parser-batch', 'the parser no longer parses a plain expression', {'reply': str(c)[:200]})
        v.case(signature=('parser', idx), n=1)
    finally:
        w.close()
    return v.export()


def live_queries(side, ptr_types, pages, rng, n):
    vs = side['vars'] + side['ptrs']
    out = []
    for _ in range(n):
        name = rng.choice(vs)
        k = rng.choice([0, 1, 2, 3, 4, 5, 5, 5, 6, 7, 8, 9, 10, 11, 12, 13, 14, 15])
        big = rng.choice(['18446744073709551615', '9223372036854775807', '4294967296', '99999999999999999999', '-1', '0', '1000000'])
        if k == 0:
            q = f'{name}[{big}]'
        elif k == 1:
            q = f'{name}[{rng.choice(["1..0", "5..2", "0.." + big, big + "..", "..0", "3..3", "0..1000000"])}]'
        elif k == 2:
            q = f'(~{name}).{rng.choice(["len", "cap", "buf", "ptr", "0", "zz"])}'
        elif k == 3:
            q = '*' * rng.randint(1, 6) + name
        elif k == 4:
            q = f'{name}.{rng.choice(["0", "1", "0.0.0", "next", "val", "a", "zz", "0.1.0"])}'
        elif k == 5:
            # keys of the wrong arity / shape, aimed mostly at the maps and sets (tuple, struct and array keys)
            if rng.random() < 0.85:
                name = rng.choice(['pairs', 'pairs', 'ordered', 'ordered', 'keyed', 'arrkey', 'hm', 'hs', 'bm', 'bs'])
            q = f'{name}[{{{", ".join(rng.choice(["1", "2", "*", "4", "3", "5"]) for _ in range(rng.randint(0, 5)))}}}]'
        elif k == 6:
            q = f'{name}[Key{{{rng.choice(["a: 1", "a: 1, b: 2", "b: *", "a: *, b: *, c: 3", ""])}}}]'
        elif k == 7:
            q = f'{name}[{rng.choice(["true", chr(34) + "poison" + chr(34), "1.5", "*", "{*}", "{*, *}", "{*, *, *, *}"])}]'
        elif k == 8:
            q = f'(*{name})[{big}]'
        elif k == 9:
            q = f'(*{name})[{rng.choice(["0..3", "1..0", "0.." + big])}]'
        elif k == 10:
            q = f'*&*&{name}'
        elif k == 11:
            q = f'{name}[0][0][0]'
        else:
            # (T)addr casts: every pointer type aimed at every poison address
            if not ptr_types:
                continue
            ty = rng.choice(ptr_types)
            addr = rng.choice(pages)
            form = rng.choice(['*({t}){a}', '(*({t}){a})[0]', '(*({t}){a})[1..3]', '(~*({t}){a}).len', '(*({t}){a}).0', '*(*({t}){a})', '(*({t}){a})[{{1}}]'])
            q = form.replace('{t}', ty).replace('{a}', hex(addr))
        out.append(q)
    return out


def asan_signature(text):
    """(kind, first frame inside BugStalker or the harness) of an AddressSanitizer report"""
    import re
    m = re.search(r'ERROR: AddressSanitizer: ([A-Za-z0-9_-]+)', text)
    kind = m.group(1) if m else 'unknown'
    frame = None
    for fm in re.finditer(r'^\s*#\d+ 0x[0-9a-f]+ in (\S+)', text, re.M):
        fn = fm.group(1)
        if 'bugstalker' in fn or 'bsmon' in fn:
            frame = re.sub(r'::h[0-9a-f]{16}$', '', fn).split('::<')[0].strip('<>')
            break
    return kind, frame


def live_case(spec):
    idx, n, tier = spec[:3]
    asan = len(spec) > 3 and spec[3]
    v = Verdict('C08', tier, '')
    rng = rng_for(common.seed(), 'c08a' if asan else 'c08l', idx)
    src, side = poison.gen(1)
    b = corpus.compile_rust('poison0', src, corpus.Config(tc='1.89' if idx % 2 else '1.95'), side)
    ctx = {'binary': b.path}
    if asan:
        ctx['worker'] = 'AddressSanitizer build'
    qt = 60 if asan else 20
    S = Session(b, v, mon=False, timeout=90 if asan else 30, sanitized=asan)
    q = None
    try:
        S.launch()
        S.cmd('break_fn', name='marker')
        r = S.cmd('start', timeout=60)
        S.cmd('frame', num=1)
        # pointer type names as the debugger itself spells them
        ptr_types = []
        for p in side['ptrs']:
            rr = S.cmd('var', expr=p, deref=0)
            for e in rr.get('ok') or []:
                tn = ((e.get('value') or {}).get('ty') or {}).get('name')
                if tn:
                    ptr_types.append(tn)
        edge = S.peek_u64(b.sym_addr('P_EDGE'))
        pages = [a for a in [b.sym_addr(p) for p in side['pages']] if a] + [b.sym_addr('P_ONES') + 4096 - 8, 0, 0x10, 0xdead_0000_0000, edge or 0x10,
                                                                           (edge or 0x10) + 8, (edge or 0x10) + 15]
        qs = live_queries(side, ptr_types, pages, rng, n)
        for q in qs:
            rr = S.cmd('var', expr=q, deref=2, timeout=qt)
            v.count('asan_live_queries' if asan else 'live_queries')
            if 'ok' in rr and rr['ok']:
                v.count('live_queries_with_results')
            if q.startswith('*(') or '(*(' in q:
                v.count('cast_queries')
                if 'ok' in rr and rr['ok']:
                    v.count('cast_queries_with_results')
            pr = S.w.cmd('probe').get('ok') or {}
            for o in pr.get('oob') or []:
                v.violation(f'oob-read:{o["site"]}', 'the debugger reads outside the bytes it fetched while interpreting debuggee data',
                            dict(ctx, query=q, probe=o))
        # memory reads with huge counts
        for cnt in (0, 1, 4096, 1 << 20, 1 << 40, (1 << 63) - 1):
            rr = S.cmd('read_mem', addr=b.sym_addr('P_ONES'), n=cnt, timeout=qt)
            v.count('huge_memory_reads')
        c = S.cmd('var', expr='arr[1]', deref=0)
        v.count('canaries')
        val = ((((c.get('ok') or [{}])[0]).get('value') or {}).get('v') or {}).get('v')
        if str(val) != '8':
            v.violation('c08:canary-failed-after-live-queries', 'a plain query no longer answers correctly after hostile queries',
                        dict(ctx, reply=str(c)[:300]))
        v.count('probe_calls', (S.w.cmd('probe').get('ok') or {}).get('calls', 0))
        if asan:
            v.count('asan_sessions_clean')
        v.case(signature=('live-asan' if asan else 'live', idx), n=1)
    except Crash as c:
        loc = (c.info or {}).get('panic', {}).get('loc') if c.kind == 'panic' else None
        reports = (c.info or {}).get('sanitizer') or []
        if reports:
            kind, frame = asan_signature(reports[0])
            v.violation(f'c08:asan:{kind}:{frame}', 'AddressSanitizer reported a memory error inside the debugger while it interpreted debuggee data',
                        dict(ctx, query=q, report=reports[0][:5000]))
        elif c.kind == 'panic':
            v.violation(f'crash:panic:{loc}', 'the debugger panicked on a data query', dict(ctx, query=q, panic=(c.info or {}).get('panic')))
        elif c.kind == 'hang':
            # a hang counts only if it reproduces on a fresh worker
            if asan:
                v.inconc('slow-under-sanitizer', q)     # the 5-10x slower build is not a timing oracle
            else:
                v.violation('c08:hang-on-data-query', 'a data query does not return within 20 s', dict(ctx, query=q)) if _reproduces_hang(b, q) else v.inconc('hang-not-reproduced', q)
        else:
            v.violation(f'c08:debugger-abort-on-data-query:{(c.info or {}).get("exit_status")}', 'the debugger process died on a data query (abort / stack overflow / allocation failure)',
                        dict(ctx, query=q, info=c.info))
    finally:
        S.close()
    return v.export()


def _reproduces_hang(b, q):
    v = Verdict('C08', 'quick', '')
    S = Session(b, v, mon=False, timeout=30)
    try:
        S.launch()
        S.cmd('break_fn', name='marker')
        S.cmd('start', timeout=60)
        S.cmd('frame', num=1)
        S.cmd('var', expr=q, deref=2, timeout=20)
        return False
    except Crash as c:
        return c.kind == 'hang'
    finally:
        S.close()


# ------------------------------------------------------------------------------------------------ console (pty)


def console_case(spec):
    idx, tier = spec
    v = Verdict('C08', tier, '')
    rng = rng_for(common.seed(), 'c08c', idx)
    src, side = poison.gen(1)
    b = corpus.compile_rust('poison0', src, corpus.Config(tc='1.89'), side)
    ctx = {'binary': b.path, 'leg': 'console'}
    pid, fd = pty.fork()
    if pid == 0:
        os.chdir(b.dir)
        env = common.fixed_env({'TERM': 'xterm-256color'})
        os.execve(common.BS, [common.BS, b.path], env)
    buf = b''

    def read_until(pat, timeout):
        nonlocal buf
        deadline = time.time() + timeout
        while time.time() < deadline:
            if re.search(pat, buf):
                return True
            r, _, _ = select.select([fd], [], [], 0.2)
            if r:
                try:
                    chunk = os.read(fd, 65536)
                except OSError:
                    return False
                if not chunk:
                    return False
                buf += chunk
        return bool(re.search(pat, buf))

    def alive():
        try:
            p, st = os.waitpid(pid, os.WNOHANG)
            return p == 0
        except ChildProcessError:
            return False

    try:
        if not read_until(rb'\(bs\)', 30):
            v.inconc('console-prompt-not-seen', buf[-200:].decode('latin1'))
            return v.export()
        lines = [f'break {os.path.basename(b.src)}:{side["marker_call_line"]}', 'run']
        ptrs = side['ptrs']
        hostile = [gen_cmd(rng) for _ in range(25)] + [f'var {q}' for q in live_queries(side, [], [], rng, 25)]
        # (hostile lines may legitimately write registers or memory of the debuggee, so the canary does not depend on its state)
        for ln in lines + hostile + ['symbol ^main$']:
            ln = ln.replace('\n', ' ').replace('\r', ' ').replace('\x00', '')
            if re.match(r'^\s*(run|r|continue|c|step|next|finish|stepi|stepinto|stepover|stepout|q|quit|async|trigger|oracle)\b', ln) and ln not in lines:
                continue
            buf = b''
            for ch in ln.encode('utf-8', 'replace') + b'\r':      # the line editor drops bytes that arrive in one burst
                os.write(fd, bytes([ch]))
                time.sleep(0.002)
            v.count('console_lines')
            # the line editor redraws the prompt while typing: a command is finished when bracketed paste was switched off
            # (line accepted) and on again (next prompt)
            done = read_until(rb'(?s)\x1b\[\?2004l.*\x1b\[\?2004h.*\(bs\)', 12)
            if not done and alive():
                # a command that asks a question (deferred breakpoint? y/n) or reads more lines: answer no / end of input
                for ans in (b'n\r', b'\r'):
                    os.write(fd, ans)
                    if read_until(rb'(?s)\x1b\[\?2004h.*\(bs\)', 5):
                        done = True
                        break
            if not done:
                if not alive():
                    m = re.search(rb'panicked at ([^\n]+)', buf)
                    v.violation('crash:panic:' + (m.group(1).decode('latin1')[:80].strip(':') if m else 'console-died'),
                                'the console debugger died on a command line', dict(ctx, line=ln[:200], tail=buf[-300:].decode('latin1')))
                else:
                    v.inconc('console-no-prompt', ln[:100])
                return v.export()
        v.count('canaries')
        plain = re.sub(rb'\x1b\[[0-9;?]*[a-zA-Z]', b'', buf)
        if not re.search(rb'main', plain.split(b'symbol ^main$')[-1]):
            v.violation('c08:canary-failed-in-console', 'the console no longer answers a plain query after hostile lines', dict(ctx, tail=buf[-200:].decode('latin1')))
        v.case(signature=('console', idx), n=1)
    finally:
        try:
            os.write(fd, b'q\r')
            time.sleep(0.1)
            os.write(fd, b'y\r')
        except OSError:
            pass
        try:
            os.killpg(pid, 9)      # pty.fork made the child a session leader: bs and its debuggee die together
        except OSError:
            pass
        try:
            os.kill(pid, 9)
        except OSError:
            pass
        try:
            os.waitpid(pid, 0)
        except ChildProcessError:
            pass
        try:
            os.close(fd)
        except OSError:
            pass
    return v.export()


# ------------------------------------------------------------------------------------------------ DAP envelopes

GARBAGE = [b'not json at all', b'[]', b'42', b'"text"', b'null', b'{}', b'{"seq": "x", "type": "request", "command": "threads"}',
           b'{"seq": 1, "type": 7, "command": "threads"}', b'{"seq": 1, "type": "request"}', b'{"seq": 1, "type": "request", "command": 5}',
           b'{"seq": -1, "type": "request", "command": "threads"}', b'{"seq": 1e400, "type": "request", "command": "threads"}',
           b'{"seq": 99999999999999999999999, "type": "request", "command": "threads"}', b'{"seq": 1, "type": "request", "command": "threads", "arguments": 5}',
           b'{"seq": 1, "type": "request", "command": "' + b'x' * 70000 + b'"}', b'{"seq":1,"type":"request","command":"threads"' ]


def dap_case(spec):
    idx, tier = spec
    v = Verdict('C08', tier, '')
    src, side = poison.gen(1)
    b = corpus.compile_rust('poison0', src, corpus.Config(tc='1.89'), side)
    g = GARBAGE[idx % len(GARBAGE)]
    ctx = {'leg': 'dap-envelope', 'payload': g[:120].decode('latin1')}
    try:
        d = Dap()
    except DapDead:
        v.inconc('adapter-did-not-start')
        return v.export()
    try:
        when = ['before-initialize', 'after-launch'][(idx // len(GARBAGE)) % 2]
        if when == 'after-launch':
            d.request('initialize', {'adapterID': 'x'})
            d.request('launch', {'program': b.path, 'cwd': b.dir})
        d.send_raw(g)
        v.count('dap_garbage_messages')
        c = d.request('threads', timeout=10)
        v.count('canaries')
        if c is None:
            rc = d.proc.poll()
            v.violation('c08:dap-session-ends-on-malformed-envelope', 'after a malformed message the adapter no longer answers (the session ended or the connection dropped)',
                        dict(ctx, when=when, adapter_exit=rc, closed=d.closed))
        v.case(signature=('dap-envelope', idx % len(GARBAGE), when), n=1)
    finally:
        rc, err = d.close()
        if b'panicked' in (err or b''):
            t = err.decode('latin1')
            i = t.find('panicked at')
            v.violation('crash:panic:' + t[i + 12:i + 90].split('\n')[0].strip(':'), 'the adapter process panicked', dict(ctx, stderr=t[i:i + 300]))
    return v.export()


def hostile_dap_arguments(rng):
    """well-formed requests whose argument values are hostile: non-ASCII text with the cursor inside a multi-byte character, huge and
    negative numbers, garbage references, very long strings"""
    texts = ['gr\u00f6\u00dfe', '\u53d8\u91cfx', 'a\u0301b', '\U0001f600\U0001f600', 'x.\u00e9', 'ASCII_only', '', ' ', '\u00e9' * 40]
    big = [0, 1, -1, 2 ** 31, 2 ** 63 - 1, 2 ** 63, 2 ** 64, -2 ** 63, 10 ** 30]
    out = []
    for _ in range(60):
        k = rng.randrange(8)
        if k == 0:
            t = rng.choice(texts)
            out.append(('completions', {'text': t, 'column': rng.randint(0, len(t.encode()) + 2), 'line': rng.choice([1, 0, 5])}))
        elif k == 1:
            out.append(('evaluate', {'expression': rng.choice(texts) + rng.choice(['', '[0]', '.x', '*', '((((']), 'context': rng.choice(['watch', 'repl', 'hover'])}))
        elif k == 2:
            out.append(('setBreakpoints', {'source': {'path': rng.choice(['/nonexistent.rs', '', '\u00e9.rs'])},
                                           'breakpoints': [{'line': rng.choice(big), 'condition': rng.choice(texts), 'hitCondition': rng.choice(['>=', '1e9', '\u00e9', '-1'])}]}))
        elif k == 3:
            out.append(('readMemory', {'memoryReference': rng.choice(['0x0', '0xffffffffffffffff', 'zz', '', '-1']), 'count': rng.choice(big), 'offset': rng.choice(big)}))
        elif k == 4:
            out.append(('disassemble', {'memoryReference': rng.choice(['0x0', '0x555555554000', 'q']), 'instructionCount': rng.choice(big),
                                        'instructionOffset': rng.choice(big), 'offset': rng.choice(big)}))
        elif k == 5:
            out.append(('variables', {'variablesReference': rng.choice(big), 'start': rng.choice(big), 'count': rng.choice(big)}))
        elif k == 6:
            out.append(('stackTrace', {'threadId': rng.choice(big), 'startFrame': rng.choice(big), 'levels': rng.choice(big)}))
        else:
            out.append(('setExpression', {'expression': rng.choice(texts), 'value': rng.choice(texts + ['1e400', '-0'])}))
    return out


def dap_arguments_case(spec):
    """hostile argument values in well-formed requests at a stop: every request is answered (success or error) and the session stays usable"""
    idx, tier = spec
    v = Verdict('C08', tier, '')
    rng = rng_for(common.seed(), 'c08d', idx)
    src, side = poison.gen(1)
    b = corpus.compile_rust('poison0', src, corpus.Config(tc='1.89'), side)
    ctx = {'leg': 'dap-arguments'}
    try:
        d = Dap()
    except DapDead:
        v.inconc('adapter-did-not-start')
        return v.export()
    last = None
    try:
        d.request('initialize', {'adapterID': 'x'})
        d.request('launch', {'program': b.path, 'cwd': b.dir})
        d.request('setFunctionBreakpoints', {'breakpoints': [{'name': 'marker'}]})
        s0 = len(d.log)
        d.request('configurationDone')
        if d.wait_event(('stopped',), timeout=30, start=s0) is None:
            v.inconc('dap-stop-not-reached')
            return v.export()
        for cmd, args in hostile_dap_arguments(rng):
            last = (cmd, args)
            r = d.request(cmd, args, timeout=20)
            v.count('dap_hostile_argument_requests')
            if r is None:
                v.violation(f'c08:dap-request-not-answered:{cmd}', 'a well-formed request with hostile argument values got no response (the adapter died or hangs)',
                            dict(ctx, request=cmd, arguments=str(args)[:300], adapter_exit=d.proc.poll(), closed=d.closed))
                break
        else:
            c = d.request('threads', timeout=10)
            v.count('canaries')
            if c is None or not c.get('success'):
                v.violation('c08:dap-canary-failed-after-hostile-arguments', 'the session is no longer usable after hostile argument values', dict(ctx, reply=str(c)[:200]))
        v.case(signature=('dap-arguments', idx), n=1)
    finally:
        rc, err = d.close()
        if b'panicked' in (err or b''):
            t = err.decode('latin1')
            i = t.find('panicked at')
            v.violation('crash:panic:' + t[i + 12:i + 90].split('\n')[0].strip(':'), 'the adapter process panicked',
                        dict(ctx, request=str(last)[:300], stderr=t[i:i + 300]))
    return v.export()


def main(tier):
    rule = ('case = one batch: 1000 parser inputs / ~150 hostile data queries at a stop (incl. type casts onto poison pages) / a console session '
            'in a pty / one malformed DAP envelope; oracle: process alive, no panic, no watchdog expiry, bounds probes silent, canary answers; '
            'distinct = distinct batches')
    V = Verdict('C08', tier, rule)
    V.minima = {'parser_inputs': 20000, 'live_queries': 1000, 'dap_garbage_messages': 16, 'canaries': 20, 'cast_queries': 100} if tier == 'quick' else \
        {'parser_inputs': 500000, 'live_queries': 30000, 'dap_garbage_messages': 60, 'canaries': 200, 'cast_queries': 4000}
    V.assumptions = ['a crash is keyed by its panic location; a hang counts only if it reproduces on a fresh worker; a watchdog expiry otherwise is inconclusive']
    np_, nl = (15, 8) if tier == 'quick' else (600, 250)
    for res in common.safe_map(parser_case, [(i, 1000, tier) for i in range(np_)], procs=8):
        V.merge(res)
    # compile once
    src, side = poison.gen(1)
    for tc in ('1.89', '1.95'):
        corpus.compile_rust('poison0', src, corpus.Config(tc=tc), side)
    for res in common.safe_map(live_case, [(i, 160, tier) for i in range(nl)], procs=8):
        V.merge(res)
    # the same live leg against the AddressSanitizer build of the worker (memory errors in unsafe code that neither panic
    # nor pass one of the bounds probes)
    if common.asan_wanted(tier):
        if common.asan_ready():
            na = 6 if tier == 'quick' else 80
            V.minima['asan_live_queries'] = 500 if tier == 'quick' else 8000
            for res in common.safe_map(live_case, [(i, 160, tier, True) for i in range(na)], procs=8):
                V.merge(res)
        else:
            V.inconc('asan-worker-not-built', 'the AddressSanitizer build of the worker is missing or older than the plain worker')
    for res in common.safe_map(console_case, [(i, tier) for i in range(2 if tier == 'quick' else 20)], procs=2):
        V.merge(res)
    for res in common.safe_map(dap_case, [(i, tier) for i in range(len(GARBAGE) * (2 if tier == 'quick' else 4))], procs=4):
        V.merge(res)
    V.minima['dap_hostile_argument_requests'] = 200 if tier == 'quick' else 2000
    for res in common.safe_map(dap_arguments_case, [(i, tier) for i in range(6 if tier == 'quick' else 60)], procs=4):
        V.merge(res)
    return V.finish()
