"""Shared machinery: builds, worker client, evidence, known findings, verdict bookkeeping."""
import hashlib
import json
import os
import random
import select
import signal
import subprocess
import sys
import time

ROOT = os.path.dirname(os.path.dirname(os.path.abspath(__file__)))
REPO = os.environ.get('VERIF_REPO', '/repo')
HARNESS = os.path.join(ROOT, 'harness')
TARGET = os.path.join(HARNESS, 'target')
TARGET_BS = os.path.join(HARNESS, 'target-bs')
BSMON = os.path.join(TARGET, 'release', 'bsmon')
REFTRACE = os.path.join(TARGET, 'release', 'reftrace')
PUREMON = os.path.join(TARGET, 'release', 'puremon')
BS = os.path.join(TARGET_BS, 'release', 'bs')
TARGET_ASAN = os.path.join(HARNESS, 'target-asan')
BSMON_ASAN = os.path.join(TARGET_ASAN, 'x86_64-unknown-linux-gnu', 'release', 'bsmon')
ASAN_LOGS = os.path.join(ROOT, 'tmp', 'asan')
CORPUS = os.path.join(ROOT, 'corpus')
EVIDENCE = os.path.join(ROOT, 'evidence')
REPLAY = os.path.join(ROOT, 'replay')
NCPU = min(16, os.cpu_count() or 4)

PIE_BASE = 0x555555554000


def seed():
    try:
        return int(os.environ.get('VERIF_SEED', '1'))
    except ValueError:
        return 1


def fixed_env(extra=None):
    """Environment given to every worker, tracer and native run: identical so that the initial
    stack layout of the debuggee is identical in all of them."""
    e = {
        'PATH': os.environ.get('PATH', '/usr/bin:/bin'),
        'HOME': os.environ.get('HOME', '/root'),
        'LANG': 'C',
        'CARGO_NET_OFFLINE': 'true',
        'RAYON_NUM_THREADS': '2',
    }
    for k in ('RUSTUP_HOME', 'CARGO_HOME', 'RUST_LOG'):
        if k in os.environ:
            e[k] = os.environ[k]
    if extra:
        e.update(extra)
    return e


def cargo_env():
    e = dict(os.environ)
    e['CARGO_NET_OFFLINE'] = 'true'
    return e


def build_harness(verbose=True):
    """(Re)build worker and tracer against /repo's current working tree."""
    t0 = time.time()
    e = cargo_env()
    e['CARGO_TARGET_DIR'] = TARGET
    r = subprocess.run(['cargo', 'build', '--release', '--offline', '-p', 'bsmon', '-p', 'reftrace', '-p', 'puremon'],
                       cwd=HARNESS, env=e, stdout=subprocess.PIPE, stderr=subprocess.STDOUT, text=True)
    if r.returncode != 0:
        sys.stdout.write(r.stdout[-6000:])
        print('BUILD-FAILED harness (machinery error, not a verdict)')
        sys.exit(1)
    if verbose:
        print(f'[build] harness ok in {time.time() - t0:.1f}s')


def build_harness_asan(verbose=True, jobs=None):
    """The worker again, built by the nightly toolchain with AddressSanitizer (own target directory). The first build
    compiles every dependency (minutes); later builds only what /repo's working tree changed."""
    t0 = time.time()
    e = cargo_env()
    e['CARGO_TARGET_DIR'] = TARGET_ASAN
    e['RUSTFLAGS'] = '-Zsanitizer=address -Cforce-frame-pointers=yes'
    cmd = ['cargo', '+nightly', 'build', '--release', '--offline', '-p', 'bsmon', '--target', 'x86_64-unknown-linux-gnu']
    if jobs:
        cmd += ['-j', str(jobs)]
    r = subprocess.run(cmd, cwd=HARNESS, env=e, stdout=subprocess.PIPE, stderr=subprocess.STDOUT, text=True)
    if r.returncode != 0:
        sys.stdout.write(r.stdout[-6000:])
        print('BUILD-FAILED harness-asan (machinery error, not a verdict)')
        return False
    if verbose:
        print(f'[build] harness (AddressSanitizer) ok in {time.time() - t0:.1f}s')
    return True


def asan_wanted(tier):
    return tier == 'thorough' or os.environ.get('VERIF_ASAN') == '1'


def asan_ready():
    """the sanitized worker exists and is not older than the plain one (both are rebuilt from /repo's working tree)"""
    try:
        return os.path.getmtime(BSMON_ASAN) >= os.path.getmtime(BSMON) - 1
    except OSError:
        return False


def build_bs(verbose=True):
    """Build the real `bs` binary (console + DAP) from /repo with the verif feature."""
    t0 = time.time()
    e = cargo_env()
    e['CARGO_TARGET_DIR'] = TARGET_BS
    e['CARGO_PROFILE_RELEASE_LTO'] = 'false'
    e['CARGO_PROFILE_RELEASE_CODEGEN_UNITS'] = '16'
    e['CARGO_PROFILE_RELEASE_OPT_LEVEL'] = '1'
    e['CARGO_PROFILE_RELEASE_DEBUG'] = 'false'
    r = subprocess.run(['cargo', 'build', '--release', '--offline', '--features', 'verif', '--bin', 'bs'],
                       cwd=REPO, env=e, stdout=subprocess.PIPE, stderr=subprocess.STDOUT, text=True)
    if r.returncode != 0:
        sys.stdout.write(r.stdout[-6000:])
        print('BUILD-FAILED bs (machinery error, not a verdict)')
        sys.exit(1)
    if verbose:
        print(f'[build] bs ok in {time.time() - t0:.1f}s')


class WorkerDead(Exception):
    pass


class WorkerTimeout(Exception):
    pass


class Worker:
    """Client of one bsmon process."""

    def __init__(self, extra_env=None, rlimit_as_gb=8, stderr_path=None, cpus=None, sanitized=False):
        self.log = []
        self.stderr_path = stderr_path
        self.sanitized = sanitized
        self.asan_log = None
        if sanitized:
            # the AddressSanitizer build: its shadow memory needs the whole address space (no RLIMIT_AS); reports go to a file
            os.makedirs(ASAN_LOGS, exist_ok=True)
            self.asan_log = os.path.join(ASAN_LOGS, f'asan.{os.getpid()}.{time.time_ns()}')
            extra_env = dict(extra_env or {})
            extra_env['ASAN_OPTIONS'] = f'detect_leaks=0:halt_on_error=1:abort_on_error=0:exitcode=86:allocator_may_return_null=1:log_path={self.asan_log}'
            for cand in ('/usr/lib/llvm-14/bin/llvm-symbolizer', '/usr/bin/llvm-symbolizer'):
                if os.path.exists(cand):
                    extra_env['ASAN_SYMBOLIZER_PATH'] = cand
                    break
            rlimit_as_gb = None
        errf = open(stderr_path, 'wb') if stderr_path else subprocess.DEVNULL

        def pre():
            import resource
            if rlimit_as_gb:
                lim = rlimit_as_gb << 30
                resource.setrlimit(resource.RLIMIT_AS, (lim, lim))
            os.setsid()
            if cpus:
                os.sched_setaffinity(0, cpus)
        self.p = subprocess.Popen([BSMON_ASAN if sanitized else BSMON], stdin=subprocess.PIPE, stdout=subprocess.PIPE, stderr=errf,
                                  env=fixed_env(extra_env), preexec_fn=pre, bufsize=0)
        self.buf = b''
        self.dead = False

    def _readline(self, timeout):
        deadline = time.time() + timeout
        fd = self.p.stdout.fileno()
        while b'\n' not in self.buf:
            left = deadline - time.time()
            if left <= 0:
                raise WorkerTimeout()
            r, _, _ = select.select([fd], [], [], left)
            if not r:
                raise WorkerTimeout()
            chunk = os.read(fd, 1 << 20)
            if not chunk:
                self.dead = True
                raise WorkerDead()
            self.buf += chunk
        line, self.buf = self.buf.split(b'\n', 1)
        return line

    def cmd(self, _c, timeout=60, **kw):
        kw['cmd'] = _c
        self.log.append(kw)
        try:
            self.p.stdin.write((json.dumps(kw) + '\n').encode())
            self.p.stdin.flush()
        except (BrokenPipeError, OSError):
            self.dead = True
            raise WorkerDead()
        line = self._readline(timeout)
        return json.loads(line)

    def asan_reports(self):
        """texts of the sanitizer reports this worker (or a child it forked) wrote"""
        import glob
        out = []
        if self.asan_log:
            for f in glob.glob(self.asan_log + '.*'):
                try:
                    out.append(open(f, errors='replace').read())
                except OSError:
                    pass
        return out

    def exit_status(self):
        try:
            return self.p.wait(timeout=5)
        except subprocess.TimeoutExpired:
            return None

    def close(self, timeout=10):
        """Ask the worker to quit (drops the debugger) and reap it; kill its whole session."""
        rc = None
        try:
            if not self.dead and self.p.poll() is None:
                try:
                    self.p.stdin.write(b'{"cmd":"quit"}\n')
                    self.p.stdin.flush()
                    self.p.stdin.close()
                except (BrokenPipeError, OSError):
                    pass
                try:
                    rc = self.p.wait(timeout=timeout)
                except subprocess.TimeoutExpired:
                    rc = None
        finally:
            self.kill()
        return rc

    def kill(self):
        try:
            os.killpg(self.p.pid, signal.SIGKILL)
        except (ProcessLookupError, PermissionError):
            pass
        try:
            self.p.kill()
        except Exception:
            pass
        try:
            self.p.wait(timeout=5)
        except Exception:
            pass
        for f in (self.p.stdin, self.p.stdout):
            try:
                f.close()
            except Exception:
                pass


def ok(reply):
    """value of a successful reply, else None"""
    return reply.get('ok') if isinstance(reply, dict) and 'ok' in reply else None


def unhex(s):
    return bytes.fromhex(s)


def sha(*parts):
    h = hashlib.sha256()
    for p in parts:
        if isinstance(p, str):
            p = p.encode()
        h.update(p)
        h.update(b'\0')
    return h.hexdigest()


# ------------------------------------------------------------------------------------------
# verdict bookkeeping


def load_known():
    p = os.path.join(ROOT, 'known_findings.json')
    if not os.path.exists(p):
        return {'known': [], 'fixed': []}
    return json.load(open(p))


class Verdict:
    """Collects cases for one property check and produces evidence + exit status."""

    def __init__(self, prop, tier, rule, level='exploration'):
        self.prop = prop
        self.tier = tier
        self.seed = seed()
        self.rule = rule
        self.level = level
        self.t0 = time.time()
        self.evaluations = 0
        self.distinct = set()
        self.samples = []
        self.counters = {}
        self.violations = []   # (signature, what, detail)
        self.inconclusive = []
        self.assumptions = []
        self.minima = {}       # counter -> minimum for the run to count

    def count(self, key, n=1):
        self.counters[key] = self.counters.get(key, 0) + n

    def case(self, signature=None, sample=None, n=1):
        """one evaluated case; `signature` (hashable/str) marks a distinct non-trivial case"""
        self.evaluations += n
        if signature is not None:
            self.distinct.add(signature if isinstance(signature, str) else json.dumps(signature, sort_keys=True))
        if sample is not None and len(self.samples) < 12:
            self.samples.append(sample)

    def violation(self, signature, what, detail=None, prop=None):
        """record a violated case; `prop` attributes it to another property (universal monitors)"""
        self.violations.append((signature, what, detail, prop or self.prop))

    def inconc(self, why, detail=None):
        self.inconclusive.append((why, detail))
        self.count('inconclusive')

    def merge(self, other):
        """merge a dict produced by Verdict.export() in a worker process"""
        self.evaluations += other['evaluations']
        self.distinct.update(other['distinct'])
        for s in other['samples']:
            if len(self.samples) < 12:
                self.samples.append(s)
        for k, v in other['counters'].items():
            self.counters[k] = self.counters.get(k, 0) + v
        self.violations.extend([tuple(x) for x in other['violations']])
        self.inconclusive.extend([tuple(x) for x in other['inconclusive']])

    def export(self):
        return {'evaluations': self.evaluations, 'distinct': list(self.distinct), 'samples': self.samples,
                'counters': self.counters, 'violations': self.violations, 'inconclusive': self.inconclusive}

    def finish(self):
        known = load_known()
        known_sigs = {(k['property'], k['signature']): k for k in known.get('known', [])}
        new = []
        known_hit = {}
        for sig, what, detail, vprop in self.violations:
            key = (vprop, sig)
            if key in known_sigs:
                kw = known_sigs[key].get('what', what)
                known_hit.setdefault((vprop, sig), (kw, 0))
                known_hit[(vprop, sig)] = (kw, known_hit[(vprop, sig)][1] + 1)
            else:
                new.append((sig, what, detail, vprop))
        wall = time.time() - self.t0
        cov = {
            'evaluations': int(self.evaluations),
            'distinct_nontrivial': len(self.distinct),
            'rule': self.rule,
            'samples': self.samples if self.samples else ['<none>'],
            'counters': self.counters,
            'inconclusive_cases': len(self.inconclusive),
            'inconclusive_reasons': sorted({w for w, _ in self.inconclusive})[:20],
            'known_findings_seen': {f'{p}:{s}': n for (p, s), (_, n) in known_hit.items()},
            'minima': self.minima,
        }
        ev = {
            'property_id': self.prop, 'tier': self.tier, 'seed': self.seed, 'level': self.level,
            'coverage': cov, 'assumptions': self.assumptions, 'wall_s': round(wall, 2),
            'violations': len(new),
        }
        os.makedirs(EVIDENCE, exist_ok=True)
        with open(os.path.join(EVIDENCE, f'{self.prop}.json'), 'w') as f:
            json.dump(ev, f, indent=1, default=str)
        for (vprop, sig), (what, n) in sorted(known_hit.items()):
            print(f'KNOWN-FINDING: property={vprop} {what} [signature={sig}, seen {n}x]')
        print(f'[{self.prop}] evaluations={self.evaluations} distinct={len(self.distinct)} '
              f'inconclusive={len(self.inconclusive)} counters={json.dumps(self.counters, sort_keys=True)} wall={wall:.1f}s')
        if new:
            os.makedirs(os.path.join(REPLAY, self.prop), exist_ok=True)
            seen = set()
            for sig, what, detail, vprop in new:
                if (vprop, sig) in seen:
                    continue
                seen.add((vprop, sig))
                name = hashlib.sha1(sig.encode()).hexdigest()[:12]
                os.makedirs(os.path.join(REPLAY, vprop), exist_ok=True)
                path = os.path.join(REPLAY, vprop, f'{name}.json')
                with open(path, 'w') as f:
                    json.dump({'property': vprop, 'found_by_check': self.prop, 'signature': sig, 'what': what,
                               'seed': self.seed, 'tier': self.tier, 'detail': detail}, f, indent=1, default=str)
                print(f'VIOLATION property={vprop} replay={path}')
                print(f'  signature: {sig}\n  what: {what}')
            return 1
        short = [k for k, m in self.minima.items() if self.counters.get(k, 0) < m]
        if short or self.evaluations == 0 or len(self.distinct) < 2:
            print(f'INCONCLUSIVE property={self.prop}: observed too little ({short}); machinery error, not a verdict')
            return 1
        print(f'[{self.prop}] held on everything observed')
        return 0


def rng_for(*parts):
    return random.Random(sha(*[str(p) for p in parts]))


class _Safe:
    """wrap a case function: an exception in the machinery is an inconclusive case, never a verdict"""

    def __init__(self, fn):
        self.fn = fn

    def __call__(self, item):
        try:
            return self.fn(item)
        except Exception:
            import traceback
            tb = traceback.format_exc()
            return {'evaluations': 0, 'distinct': [], 'samples': [], 'counters': {'machinery_exceptions': 1},
                    'violations': [], 'inconclusive': [('machinery-exception', tb[-1500:])]}


def safe_map(fn, items, procs=None):
    return parallel_map(_Safe(fn), items, procs)


def parallel_map(fn, items, procs=None):
    """run fn(item) in a process pool; fn must be a module-level function"""
    import multiprocessing as mp
    procs = procs or NCPU
    if procs <= 1 or len(items) <= 1:
        return [fn(i) for i in items]
    ctx = mp.get_context('fork')
    with ctx.Pool(min(procs, len(items))) as pool:
        return pool.map(fn, items, chunksize=1)
