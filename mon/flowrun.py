"""Engine shared by C03 and C05: drive a debugger through a located position of the reference
trace, issue step commands, and judge landings / backtraces against the trace, its shadow call
stack and the reference line table."""
import bisect
import os

from .session import Crash


class Ref:
    """per-binary derived reference data"""

    def __init__(self, prep):
        self.prep = prep
        self.T = prep.trace
        self.dw = prep.dw
        self.base = prep.base
        src = os.path.basename(prep.b.src)
        self.src = src
        # is_stmt rows of the user CU(s): relocated addr -> (file, line)
        self.stmt = {}
        for r in prep.dw.rows:
            if r.is_stmt and not r.end_seq:
                f = prep.dw.files.get(r.file) or ''
                self.stmt.setdefault(r.addr + self.base, []).append((f, r.line))
        self.user_fn = prep.user_funcs
        self._fn_starts = sorted((sp.low() + self.base, sp) for sp in prep.dw.subprograms)
        self._fn_lows = [a for a, _ in self._fn_starts]
        self._innermost_cache = {}

    def func_at(self, pc):
        """user-CU subprogram containing relocated pc"""
        i = bisect.bisect_right(self._fn_lows, pc) - 1
        while i >= 0:
            sp = self._fn_starts[i][1]
            if sp.contains(pc - self.base):
                return sp
            if pc - self.base - sp.low() > 0x100000:
                break
            i -= 1
        return None

    def is_user_fn(self, sp):
        return sp is not None and (sp.decl_file or '').endswith('/' + self.src)

    def line_of(self, pc):
        r = self.dw.row_for_pc(pc - self.base)
        if r is None:
            return None
        return (self.dw.files.get(r.file) or '', r.line)

    def activation(self, k):
        """innermost call record active at k (None when in the outermost code)"""
        st = self.T.stack_at(k)
        return st[-1] if st else None

    def same_activation_iter(self, k, act):
        """indices after k that execute in the same activation as k (until it returns)"""
        T = self.T
        end = act[1] if act else T.n
        d = T.depth[k]
        i = k + 1
        while i < end:
            if T.depth[i] == d:
                yield i
            i += 1

    def jstar(self, k):
        """upper bound index for next/step from k: first index > k in the same activation at an
        is_stmt row of a different (non-zero, non-inlined) line; if the activation returns first,
        the first is_stmt row address reached at or after the return, in the caller.
        Returns (index or None, kind)"""
        T = self.T
        act = self.activation(k)
        cur = self.line_of(T.pc[k])
        sp = self.func_at(T.pc[k])
        for i in self.same_activation_iter(k, act):
            pc = T.pc[i]
            rows = self.stmt.get(pc)
            if not rows:
                continue
            if sp is not None and sp.in_inlined(pc - self.base):
                continue
            if any(l != 0 and (cur is None or (f, l) != cur) for f, l in rows):
                return i, 'same-activation'
        if act is None:
            return None, 'none'
        # activation returns at act.end: first is_stmt row address in the caller's activation
        e = act[1]
        if e >= T.n:
            return None, 'none'
        d = T.depth[e]
        outer = self.activation(e)
        end = outer[1] if outer else T.n
        # BugStalker deliberately finishes the remainder of the call line when it comes back in the middle of
        # it, so the bound is the first statement boundary of a line other than the line of the return address
        call_line = self.line_of(T.pc[e])
        i = e
        while i < end:
            if T.depth[i] == d:
                rows = self.stmt.get(T.pc[i])
                if rows and (i == e or call_line is None or any(l != 0 and (f, l) != call_line for f, l in rows)):
                    return i, 'after-return'
            i += 1
        return None, 'none'

    def first_line_limit(self, call):
        """for a callee activation `call`: first index at which execution has left the callee's first
        body line (the line of its prologue_end row). A `step` entering this callee must stop
        before that index. None if it cannot be determined."""
        T = self.T
        start, end, site, target, ret, slot = call
        sp = self.func_at(target)
        if sp is None or sp.low() + self.base != target:
            return None
        lo, hi = sp.ranges[0]
        pe = [r for r in self.dw.rows if lo <= r.addr < hi and r.prologue_end and not r.end_seq]
        if not pe:
            return None
        pe.sort(key=lambda r: r.addr)
        first = pe[0]
        fl = (self.dw.files.get(first.file) or '', first.line)
        d = T.depth[start]
        reached = False
        i = start
        while i < min(end, T.n):
            if T.depth[i] == d:
                pc = T.pc[i]
                if not reached:
                    if pc == first.addr + self.base:
                        reached = True
                else:
                    rows = self.stmt.get(pc)
                    if rows and not sp.in_inlined(pc - self.base) and any(l != 0 and (f, l) != fl for f, l in rows):
                        return i
            i += 1
        return end if reached else None


def position(S, r, tid=None):
    """(pc, rsp, tick) of the focused thread from the raw observations of reply r"""
    m = r.get('mon') or {}
    regs = m.get('regs') or {}
    if tid is None:
        ecx = m.get('ecx') or {}
        tid = ecx.get('tid')
    rr = regs.get(str(tid))
    if not rr:
        return None
    return rr['rip'], rr['rsp'], S.tick()


def run_to(S, ref, addr, occurrence, cursor, v, max_conts=400):
    """set a breakpoint at addr, continue until its `occurrence`-th arrival after cursor, remove it.
    Returns (index, reply) or (None, why)."""
    T = ref.T
    lst = T.by_pc().get(addr, [])
    j = bisect.bisect_right(lst, cursor)
    if j + occurrence >= len(lst):
        return None, 'no-such-arrival'
    target = lst[j + occurrence]
    r = S.cmd('break_addr', addr=addr)
    if 'ok' not in r:
        return None, f'break failed: {r.get("err")}'
    rep = None
    for _ in range(occurrence + 1):
        rep = S.cmd('cont' if S.started else 'start')
        okv = rep.get('ok')
        if not okv or okv.get('stop') != 'breakpoint' or okv.get('pc') != addr:
            return None, f'unexpected stop while positioning: {okv or rep.get("err")}'
    S.cmd('remove_addr', addr=addr)
    pos = position(S, rep, okv['tid'])
    if pos is None or (T.pc[target], T.rsp[target], T.tick[target]) != pos:
        return None, f'positioning landed elsewhere: {pos} vs index {target}'
    return target, rep
