"""C03: step commands land where their definition says, relative to the real execution.

From a located position k of the reference trace T the four step kinds are judged:
  stepi  : k' = k+1
  finish : k' = first index after the current activation returns (pc = its return address)
  next   : statement boundary; k' <= j* (first is_stmt row of another line in the same activation,
           or first statement boundary in the caller after the return); never inside a callee
  step   : as next without the callee rule, plus: entering a user callee it must stop before the
           callee's first body line has been left
and the place reported must be the reference line of the real pc.
"""
import os

from . import common, flowlib
from .common import Verdict, rng_for
from .flowrun import Ref, position, run_to
from .session import Session, Crash


def same_place(got, want):
    """reported place vs reference (file, line). Standard-library paths are remapped by the debugger to
    the local rust-src copy, so for /rustc/<hash>/ paths only the part below library/ is compared."""
    wf, wl = want
    if got['line'] != wl:
        return False
    if wf.startswith('/rustc/') and '/library/' in wf:
        return got['file'].endswith(wf[wf.index('/library/'):])
    return got['file'] == wf


def epilogue_addr(ref, sp):
    """lowest epilogue_begin row address of a subprogram in the reference line table (None if none)"""
    lo, hi = sp.ranges[0]
    e = [r.addr for r in ref.dw.rows if lo <= r.addr < hi and r.epilogue_begin]
    return min(e) if e else None


def judge_step(kind, k, r, S, ref, v, ctx, B):
    """returns new index k' or None (sequence must end)"""
    T = ref.T
    base = ref.base
    evs = r.get('ev', [])
    names = [e['ev'] for e in evs]
    detail = dict(ctx, step=kind, from_index=k, from_pc=hex(T.pc[k]), from_line=ref.line_of(T.pc[k]), events=evs,
                  reply={k_: r.get(k_) for k_ in ('ok', 'err')})
    fsp = ref.func_at(T.pc[k])
    feat = 'rec' if (fsp is not None and fsp.name in ('rec', 'ping', 'pong')) else 'plain'
    if 'ok' not in r:
        err = r.get('err', '')
        # a step that ran into process exit says so
        if 'exit' in names or S.exited:
            js, _ = ref.jstar(k)
            act = ref.activation(k)
            legit = (kind == 'stepi' and k + 1 >= T.n) or (kind == 'finish' and (act is None or act[1] >= T.n)) or \
                    (kind in ('next', 'step') and js is None)
            v.count('steps_ending_in_exit')
            if not legit and kind in ('next', 'step') and T.pc[js] in B:
                # same cause as a skipped line with a user breakpoint on it; here nothing later stopped the program
                v.violation(f'c03:{kind}:skipped-a-line:skipped-row-has-a-user-breakpoint:any',
                            'the step ran past the first statement boundary of a different line reached in the current activation',
                            dict(detail, skipped_row=hex(T.pc[js]), ran_to_exit=True))
            elif not legit:
                v.violation(f'c03:{kind}:ran-to-exit:{feat}', 'the step ran to process exit although its landing point exists in the execution', detail)
            return None
        v.violation(f'c03:{kind}:error:{feat}', f'step command failed: {err}', detail)
        return None
    pos = position(S, r)
    if pos is None:
        v.inconc('no-raw-position')
        return None
    pc, rsp, tick = pos
    k2 = T.locate(pc, rsp, tick, after=k)
    detail.update(landed={'pc': hex(pc), 'rsp': hex(rsp), 'tick': tick}, landed_index=k2, landed_line=ref.line_of(pc))
    if k2 is None:
        if T.locate(pc, rsp, tick, after=-1) is not None:
            v.violation(f'c03:{kind}:went-backwards-or-stayed:{feat}', 'after the step the program is not at a later point of the execution', detail)
        else:
            v.violation(f'c03:{kind}:position-not-in-execution:{feat}', 'the landing position does not occur in the real execution', detail)
        return None
    hit_bp = 'breakpoint' in names
    jb = T.next_at(B, k) if B else None
    if hit_bp:
        v.count('steps_cut_by_breakpoint')
        if jb is None or k2 != jb:
            v.violation(f'c03:{kind}:breakpoint-report-wrong:{feat}', 'step reported a breakpoint stop that is not the first breakpoint arrival on its path',
                        dict(detail, first_bp_arrival=jb))
            return k2
        return k2
    if 'step' not in names:
        v.violation(f'c03:{kind}:no-step-event:{feat}', 'the step completed without announcing where it stopped', detail)
        return k2
    sev = [e for e in evs if e['ev'] == 'step'][-1]
    # ---- reported place is the place of the real pc
    if sev['pc'] != pc:
        v.violation(f'c03:{kind}:reported-pc-not-real', 'on_step pc differs from the real rip', detail)
        return k2
    want = ref.line_of(pc)
    sp2 = ref.func_at(pc)
    if want is not None and sp2 is not None:
        v.count('places_checked')
        got = sev.get('place')
        if got is None or not same_place(got, want):
            v.violation(f'c03:{kind}:reported-place-wrong:{feat}', 'file/line reported after the step is not the line of the real pc in the reference line table',
                        dict(detail, want=want))
            return k2
    act = ref.activation(k)
    v.count('steps_' + kind)
    if kind == 'stepi':
        if k2 != k + 1:
            v.violation(f'c03:stepi:not-one-instruction:{feat}', 'stepi did not execute exactly one instruction', detail)
            return k2
        return k2
    if kind == 'finish':
        if act is None:
            return k2
        exp = act[1]
        if k2 != exp:
            cls = 'stopped-before-return' if k2 < exp else 'stopped-after-return-point'
            deeper = k2 < exp and T.pc[k2] == act[4]
            v.violation(f'c03:finish:{cls}:{"same-return-address-in-deeper-activation" if deeper else feat}',
                        'finish did not stop immediately after the current function returned to its caller',
                        dict(detail, expected_index=exp, expected_pc=hex(act[4])))
            return k2
        return k2
    # next / step
    js, jkind = ref.jstar(k)
    detail.update(jstar=js, jstar_kind=jkind)
    if sp2 is not None and ref.is_user_fn(sp2) or pc in ref.stmt:
        v.count('stmt_boundary_checks')
        if pc not in ref.stmt and sp2 is not None:
            act0 = ref.activation(k)
            at_ret = act0 is not None and pc == act0[4] and bool(ref.dw.rows_at(pc - base))
            why = 'return-address-is-a-non-stmt-row' if at_ret else feat
            v.violation(f'c03:{kind}:not-a-statement-boundary:{why}', 'the step stopped at an address that is not an is_stmt row of the line table', detail)
            return k2
    if js is not None and k2 > js:
        why = feat
        if fsp is not None and jkind == 'same-activation':
            ea = epilogue_addr(ref, fsp)
            if ea is not None and T.pc[js] - base > ea:
                why = 'skipped-row-lies-after-epilogue-in-address-order'
        if T.pc[js] in B:
            why = 'skipped-row-has-a-user-breakpoint'
        detail['skipped_row'] = hex(T.pc[js])
        if why == 'skipped-row-has-a-user-breakpoint':
            jkind = 'any'
        v.violation(f'c03:{kind}:skipped-a-line:{why}:{jkind}',
                    'the step ran past the first statement boundary of a different line reached in the current activation', detail)
        return k2
    if kind == 'next':
        end = act[1] if act else T.n
        if k2 < end and T.depth[k2] != T.depth[k]:
            sp_l = ref.func_at(pc)
            why = 'deeper-activation-of-the-same-function' if (sp_l is not None and fsp is not None and sp_l.off == fsp.off) else feat
            v.violation(f'c03:next:stopped-inside-callee:{why}', 'next stopped inside a callee of the current activation', detail)
            return k2
    else:
        # step: a user callee entered directly from this activation before j*
        T_calls = T.calls
        import bisect
        lo = bisect.bisect_right(T._call_starts, k)
        hi = bisect.bisect_right(T._call_starts, js if js is not None else k2)
        for c in T_calls[lo:hi]:
            if T.depth[c[0]] == T.depth[k] + 1 and c[0] < (act[1] if act else T.n):
                csp = ref.func_at(c[3])
                if csp is not None and ref.is_user_fn(csp) and csp.low() + base == c[3]:
                    lim = ref.first_line_limit(c)
                    v.count('step_into_user_callee_checks')
                    if lim is not None and k2 >= lim:
                        v.violation(f'c03:step:skipped-callee-first-line:{feat}',
                                    'step entered a callee with line information but did not stop on its first line',
                                    dict(detail, callee=csp.full_name(), limit_index=lim))
                        return k2
                break
    return k2


def run_case(spec):
    idx, seq, cfg, tier = spec
    v = Verdict('C03', tier, '')
    try:
        prep = flowlib.prepare(idx, **cfg)
    except Exception as e:
        v.inconc('prepare-failed', str(e))
        return v.export()
    okk, why = prep.oracle_ok()
    if not okk:
        v.inconc('oracle-unusable', why)
        return v.export()
    rng = rng_for(common.seed(), 'c03', idx, seq, sorted(cfg.items()))
    ref = Ref(prep)
    T = ref.T
    S = Session(prep.b, v)
    kinds_used = []
    try:
        S.launch()
        # start position: an executed statement of a user function, at a random arrival
        user_stmt = [a for a in prep.stmt_addrs(executed_only=True) if ref.is_user_fn(ref.func_at(a))]
        if not user_stmt:
            v.inconc('no-user-statements')
            return v.export()
        addr = rng.choice(user_stmt)
        first_kind = None
        slc = set(prep.b.side.get('same_line_callee_lines') or [])
        if slc and rng.random() < 0.3:
            # a line that invokes a closure defined on the same line: the callee's first line is the call line
            cands = [a for a in user_stmt if any(l in slc for _, l in ref.stmt.get(a, []))]
            if cands:
                addr = rng.choice(cands)
                first_kind = 'step'
        hits = len(T.by_pc()[addr])
        occ = rng.randrange(min(hits, 6))
        k, rep = run_to(S, ref, addr, occ, -1, v)
        if k is None:
            v.inconc('positioning-failed', rep)
            return v.export()
        # variant: user breakpoints around
        B = set()
        variant = rng.choice(['none', 'none', 'next-line', 'callee', 'retaddr'])
        if variant != 'none':
            cand = None
            if variant == 'next-line':
                js, _ = ref.jstar(k)
                cand = T.pc[js] if js is not None else None
            elif variant == 'callee':
                fn = rng.choice([f for f in prep.user_funcs if f.name in ('mix', 'rec', 'f0', 'f1', 'gen_id')] or prep.user_funcs)
                rows = [r for r in prep.user_rows if fn.contains(r.addr) and r.is_stmt and r.prologue_end]
                cand = rows[0].addr + ref.base if rows else None
            else:
                act = ref.activation(k)
                cand = act[4] if act else None
            if cand is not None and cand != T.pc[k] and cand in ref.stmt:
                rb = S.cmd('break_addr', addr=cand)
                if 'ok' in rb:
                    B.add(cand)
        n = rng.randint(5, 30 if tier == 'quick' else 40)
        weights = rng.choice([(4, 3, 3, 1), (1, 4, 4, 2), (6, 1, 1, 1), (1, 1, 6, 2)])
        for _ in range(n):
            kind = rng.choices(['stepi', 'step', 'next', 'finish'], weights=weights)[0]
            if first_kind:
                kind, first_kind = first_kind, None
            # do not walk out of user code: the reference line table covers user units only
            sp = ref.func_at(T.pc[k])
            if sp is None or not ref.is_user_fn(sp):
                break
            ctx = {'binary': prep.b.path, 'src': prep.b.src, 'cfg': cfg, 'user_breakpoints': [hex(a) for a in B],
                   'history': S.history[-25:]}
            r = S.cmd(kind, timeout=120)
            k = judge_step(kind, k, r, S, ref, v, ctx, B)
            kinds_used.append(kind)
            if k is None:
                break
        v.case(signature=('c03', idx, tuple(sorted(cfg.items())), hex(addr), occ, variant, tuple(kinds_used[:10])),
               sample={'program': os.path.basename(prep.b.src), 'cfg': cfg, 'start_addr': hex(addr), 'arrival': occ,
                       'variant': variant, 'steps': kinds_used[:20]})
        v.count('sequences')
    except Crash as c:
        v.violation(f'crash:{c.kind}:{(c.info or {}).get("panic", {}).get("loc") if c.kind == "panic" else (c.info or {}).get("cmd")}',
                    f'debugger {c.kind} during a step sequence', {'info': c.info, 'history': S.history[-40:], 'binary': prep.b.path}, prop='C08')
    finally:
        S.close()
    return v.export()


def _prep(p):
    idx, cfg, validate = p
    try:
        flowlib.prepare(idx, validate=validate, **dict(cfg))
    except Exception as e:
        return str(e)


def main(tier):
    rule = ('case = (generated flow program, config, start position = n-th arrival at a random executed user statement, optional user '
            'breakpoint variant, seeded sequence of stepi/step/next/finish); each landing is located in the reference single-step trace by '
            '(pc, rsp, TICK) and judged against the shadow call stack and the llvm-dwarfdump line table; distinct = distinct '
            '(program, config, start, variant, step-kind prefix)')
    V = Verdict('C03', tier, rule)
    V.minima = {'steps_stepi': 40, 'steps_step': 40, 'steps_next': 40, 'steps_finish': 15, 'places_checked': 100} if tier == 'quick' else \
        {'steps_stepi': 700, 'steps_step': 700, 'steps_next': 1000, 'steps_finish': 300, 'places_checked': 3000}
    V.assumptions = ['only steps that start inside generated user functions are judged (the reference line table covers user units)',
                     'upper bounds only: stopping earlier on another is_stmt row of the same line is accepted',
                     'rows inside inlined-subroutine ranges and line-0 rows are never the bound j*']
    if tier == 'quick':
        cfgs = [dict(tc='1.89', opt=0, dwarf=4, pie=True), dict(tc='1.95', opt=0, dwarf=5, pie=True)]
        specs = [(i, s, cfgs[i % 2], tier) for i in range(6) for s in range(10)]
    else:
        cfgs = [dict(tc=tc, opt=o, dwarf=d, pie=True) for tc in ('1.89', '1.95') for o in (0, 1) for d in (4, 5)]
        specs = [(i, s, cfgs[(i + s) % len(cfgs)], tier) for i in range(25) for s in range(25)]
    progs = sorted({(s[0], tuple(sorted(s[2].items())), tier == 'thorough') for s in specs})
    common.parallel_map(_prep, progs)
    for res in common.safe_map(run_case, specs):
        V.merge(res)
    return V.finish()
