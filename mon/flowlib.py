"""Shared preparation for the flow-family checks (C01, C02, C03, C05, C13)."""
import os
import sys

sys.path.insert(0, os.path.dirname(os.path.dirname(os.path.abspath(__file__))))

from gen import flow  # noqa: E402
from . import corpus, dwarfref, common  # noqa: E402

_prep_cache = {}


class Prepared:
    """binary + native result + reference trace + reference DWARF"""

    def __init__(self, binary, validate):
        self.b = binary
        self.native = corpus.native_run(binary)
        self.trace = corpus.ref_trace(binary, validate=validate)
        self.dw = dwarfref.DwarfRef(binary.path, [binary.src])
        self.base = binary.base
        src = os.path.basename(binary.src)
        self.user_rows = [r for r in self.dw.rows if (self.dw.files.get(r.file) or '').endswith('/' + src)]
        self.user_funcs = [sp for sp in self.dw.subprograms
                           if (sp.decl_file or '').endswith('/' + src) and sp.ns and sp.ns[0] == binary.name]

    def oracle_ok(self):
        """the reference is usable: trace complete, deterministic, same output and exit as native"""
        t = self.trace
        if t.meta['exit_kind'] != 'exited':
            return False, f'trace {t.meta["exit_kind"]}'
        if t.validated is False:
            return False, 'nondeterministic trace'
        if t.meta['exit_code'] != self.native[2] or t.stdout != self.native[0]:
            return False, 'trace and native run disagree'
        return True, ''

    def insn_addrs(self):
        """relocated instruction boundaries of generated user functions (llvm-objdump, independent of gimli/capstone)"""
        if getattr(self, '_insns', None) is None:
            import re
            import subprocess
            out = []
            for sp in self.user_funcs:
                for lo, hi in sp.ranges:
                    txt = subprocess.run(['llvm-objdump-14', '-d', '--no-show-raw-insn', f'--start-address={lo:#x}',
                                          f'--stop-address={hi:#x}', self.b.path], stdout=subprocess.PIPE, text=True).stdout
                    for l in txt.splitlines():
                        m = re.match(r'^\s*([0-9a-f]+):\s+\S', l)
                        if m:
                            out.append(int(m.group(1), 16) + self.base)
            self._insns = sorted(set(out))
        return self._insns

    def stmt_addrs(self, executed_only=None):
        """addresses of is_stmt rows with a real line in user functions (instruction boundaries)"""
        out = []
        bp = self.trace.by_pc()
        for r in self.user_rows:
            if r.is_stmt and r.line > 0 and not r.end_seq:
                a = r.addr + self.base
                ex = a in bp
                if executed_only is None or executed_only == ex:
                    out.append(a)
        return sorted(set(out))


def flow_program(idx, tc='1.89', opt=0, dwarf=4, pie=True, budget=1200, rec_depth=None, signals=False):
    seed = common.seed() * 1000 + idx
    name = f'flow{idx}' + ('s' if signals else '')
    src, side = flow.gen(seed, budget=budget, rec_depth=rec_depth, signals=signals)
    cfg = corpus.Config(tc=tc, opt=opt, dwarf=dwarf, pie=pie)
    return corpus.compile_rust(name, src, cfg, side)


def prepare(idx, validate=False, **kw):
    key = (common.seed(), idx, tuple(sorted(kw.items())))
    if key not in _prep_cache:
        _prep_cache[key] = Prepared(flow_program(idx, **kw), validate)
    return _prep_cache[key]
