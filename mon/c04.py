"""C04: address <-> source answers agree with the binary's DWARF, independently decoded.

Reference: llvm-dwarfdump line table and subprogram ranges (mon/dwarfref.py), instruction
boundaries from llvm-objdump. Judged answers: pc -> (function, file:line) for every instruction of
every user function; file:line -> breakpoint addresses for every source line; function ->
breakpoint address for every user function.
"""
import os

from . import common, flowlib
from .common import Verdict
from .session import Session, Crash, reloc


_ESC = {'$LT$': '<', '$GT$': '>', '$u20$': ' ', '$RF$': '&', '$BP$': '*', '$C$': ',', '$u7b$': '{', '$u7d$': '}', '$LP$': '(', '$RP$': ')',
        '$u5b$': '[', '$u5d$': ']', '$u27$': "'", '$u3b$': ';', '$u2b$': '+', '$u21$': '!', '$SP$': '@', '$u3d$': '='}


def demangle_legacy(sym):
    """path of a legacy-mangled Rust symbol (_ZN..E) without the hash; None if it is not one"""
    if not sym or not sym.startswith('_ZN') or not sym.endswith('E'):
        return None
    i = 3
    parts = []
    body = sym[:-1]
    while i < len(body):
        j = i
        while j < len(body) and body[j].isdigit():
            j += 1
        if j == i:
            return None
        n = int(body[i:j])
        parts.append(body[j:j + n])
        i = j + n
    if parts and len(parts[-1]) == 17 and parts[-1].startswith('h'):
        parts.pop()
    out = []
    for p in parts:
        if p.startswith('_$'):
            p = p[1:]
        for k, v in _ESC.items():
            p = p.replace(k, v)
        p = p.replace('..', '::')
        out.append(p)
    return '::'.join(out)


def same_place(got, want):
    wf, wl = want
    if got['line'] != wl:
        return False
    if wf.startswith('/rustc/') and '/library/' in wf:
        return got['file'].endswith(wf[wf.index('/library/'):])
    return got['file'] == wf


def ref_candidates_for_pc(dw, pc):
    """(file, line) pairs that a correct reader may report for pc: rows at the greatest row address <= pc
    inside the sequence containing pc"""
    for lo, hi, rs in dw.seq_list:
        if lo <= pc < hi:
            best = None
            for r in rs:
                if r.addr <= pc and not r.end_seq:
                    if best is None or r.addr > best:
                        best = r.addr
            if best is None:
                return set()
            return {(dw.files.get(r.file) or '', r.line) for r in rs if r.addr == best and not r.end_seq}
    return set()


def judge_lines(S, v, dw, rows, src, nlines, ctx):
    """every line 1..N+2 of one source file is turned into breakpoint addresses; `rows` are the reference rows of that file in
    every compilation unit that has code for it"""
    # ---------------- line -> addresses (before start: answers are file addresses)
    stmt_by_line = {}
    for r in rows:
        if r.is_stmt and not r.end_seq and r.line > 0:
            sp = dw.func_for_pc(r.addr)
            if sp is None:
                continue
            stmt_by_line.setdefault(r.line, {}).setdefault(sp.off, set()).add(r.addr)
    for line in range(1, nlines + 3):
        r = S.cmd('break_line', file=src, line=line)
        want = stmt_by_line.get(line) or stmt_by_line.get(line + 1)
        used_line = line if stmt_by_line.get(line) else line + 1
        v.count('line_queries')
        if 'ok' not in r:
            if want:
                v.violation('c04:line:no-breakpoint-for-line-with-code', 'a line (or its successor) has statements but no breakpoint could be set',
                            dict(ctx, line=line, err=r.get('err')))
            continue
        views = r['ok']
        addrs = [vw['addr']['addr'] for vw in views]
        if not want:
            v.violation('c04:line:breakpoint-for-line-without-code', 'a breakpoint was set for a line although neither it nor the next line has code',
                        dict(ctx, line=line, addrs=[hex(a) for a in addrs]))
        else:
            got_by_sp = {}
            bad = None
            for a in addrs:
                sp = dw.func_for_pc(a)
                if sp is None or sp.off not in want or a not in want[sp.off]:
                    bad = a
                    break
                got_by_sp.setdefault(sp.off, []).append(a)
            if bad is not None:
                rows = dw.rows_at(bad)
                v.violation('c04:line:address-is-not-a-statement-of-the-line',
                            'an address chosen for a file:line breakpoint is not an is_stmt row of that line (or of the next line when the line has no code)',
                            dict(ctx, line=line, used_line=used_line, addr=hex(bad), rows=[repr(x) for x in rows]))
            else:
                missing = [o for o in want if o not in got_by_sp]
                dup = [o for o, l in got_by_sp.items() if len(l) > 1]
                if missing:
                    names = [dw.by_off[o].name() if o in dw.by_off else hex(o) for o in missing]
                    feat = 'generic-or-multi-instance' if len(want) > 1 else 'single'
                    # the missing instances' rows of this line all sit at another column than the chosen place
                    chosen_cols = {x.col for a_ in addrs for x in dw.rows_at(a_) if x.line == used_line}
                    miss_cols = {x.col for o in missing for a_ in want[o] for x in dw.rows_at(a_) if x.line == used_line}
                    if chosen_cols and miss_cols and not (chosen_cols & miss_cols):
                        feat = 'instance-rows-at-a-different-column'
                    v.violation(f'c04:line:instance-without-breakpoint:{feat}',
                                'a function or instantiation that contains the line got no breakpoint',
                                dict(ctx, line=line, used_line=used_line, missing=names, got=[hex(a) for a in addrs], want_instances=len(want)))
                if dup:
                    v.violation('c04:line:two-breakpoints-in-one-instance', 'one function instance got more than one breakpoint for a line',
                                dict(ctx, line=line, got=[hex(a) for a in addrs]))
                if len(want) > 1:
                    v.count('multi_instance_line_queries')
            # the place reported must be the place of the address
            for vw in views:
                pl = vw.get('place')
                if pl and (pl['line'] != used_line or pl['addr'] != vw['addr']['addr']):
                    v.violation('c04:line:view-place-mismatch', 'the place attached to a line breakpoint is not the requested line / its own address',
                                dict(ctx, line=line, view=vw))
        S.cmd('remove_line', file=src, line=line)


def run_case(spec):
    idx, cfg, tier = spec
    v = Verdict('C04', tier, '')
    try:
        prep = flowlib.prepare(idx, **cfg)
    except Exception as e:
        v.inconc('prepare-failed', str(e)[-300:])
        return v.export()
    dw = prep.dw
    base = prep.base
    src = os.path.basename(prep.b.src)
    srcpath = prep.b.src
    nlines = len(open(srcpath).read().split('\n'))
    S = Session(prep.b, v, mon=False)
    ctx = {'binary': prep.b.path, 'src': srcpath, 'cfg': cfg}
    try:
        S.launch()
        judge_lines(S, v, dw, prep.user_rows, src, nlines, ctx)
        # ---------------- function -> address
        insns = set(a - base for a in prep.insn_addrs())
        names = sorted({sp.name for sp in prep.user_funcs if sp.name and not sp.name.startswith('{')})
        for nm in names:
            base_name = nm.split('<')[0]
            r = S.cmd('break_fn', name=base_name)
            v.count('function_queries')
            insts = [sp for sp in prep.user_funcs if (sp.name or '').split('<')[0] == base_name]
            if 'ok' not in r:
                v.violation('c04:fn:no-breakpoint-for-existing-function', 'a function breakpoint could not be set for an existing function',
                            dict(ctx, name=base_name, err=r.get('err')))
                continue
            addrs = [vw['addr']['addr'] for vw in r['ok']]
            for sp in insts:
                lo, hi = sp.ranges[0]
                mine = [a for a in addrs if sp.contains(a)]
                if len(mine) != 1:
                    v.violation('c04:fn:instance-count', 'an instance of the function got no or several breakpoints',
                                dict(ctx, name=base_name, instance=sp.full_name(), got=[hex(a) for a in addrs]))
                    continue
                a = mine[0]
                pe = sorted(x.addr for x in dw.rows if lo <= x.addr < hi and x.prologue_end and not x.end_seq)
                if a not in insns:
                    v.violation('c04:fn:not-an-instruction-boundary', 'function breakpoint address is not an instruction boundary', dict(ctx, name=base_name, addr=hex(a)))
                elif pe and a != pe[0]:
                    v.violation('c04:fn:not-at-prologue-end', 'function breakpoint is not at the end of the prologue marked by the compiler',
                                dict(ctx, name=base_name, instance=sp.full_name(), addr=hex(a), prologue_end=hex(pe[0])))
                v.count('function_instances_checked')
            extra = [a for a in addrs if not any(sp.contains(a) for sp in insts)]
            if extra:
                v.violation('c04:fn:address-outside-the-function', 'function breakpoint address lies outside every instance of that function',
                            dict(ctx, name=base_name, extra=[hex(a) for a in extra]))
            S.cmd('remove_fn', name=base_name)
        # ---------------- pc -> function, file:line (needs a started debuggee)
        r = S.cmd('break_fn', name='main')
        r = S.cmd('start')
        if (r.get('ok') or {}).get('stop') != 'breakpoint':
            v.inconc('could-not-start', str(r)[:200])
        else:
            pcs = sorted(insns)
            # also addresses just inside/outside function ends and mid-instruction addresses
            ans = S.cmd('resolve_pcs', pcs=pcs, timeout=300)
            if 'ok' not in ans:
                v.violation('c04:pc:batch-error', f'resolve failed: {ans.get("err")}', ctx)
            else:
                amb = 0
                for pc, a in zip(pcs, ans['ok']):
                    v.count('pc_lookups')
                    sp = dw.func_for_pc(pc)
                    cands = ref_candidates_for_pc(dw, pc)
                    if a is None or 'err' in a:
                        v.violation('c04:pc:no-answer', 'no function/place for an instruction of a user function', dict(ctx, pc=hex(pc), answer=a))
                        continue
                    if sp is not None and a['fn'] != sp.full_name() and a['fn'] != demangle_legacy(sp.linkage):
                        v.violation('c04:pc:wrong-function', 'function reported for a pc is not the subprogram whose range contains it',
                                    dict(ctx, pc=hex(pc), got=a['fn'], want=[sp.full_name(), demangle_legacy(sp.linkage)]))
                        continue
                    pl = a.get('place')
                    if not cands:
                        continue
                    if len(cands) > 1:
                        amb += 1
                    if pl is None or not any(same_place(pl, c_) for c_ in cands):
                        # end_sequence sharing: which neighbour did it take?
                        v.violation('c04:pc:wrong-line', 'file/line reported for a pc differs from the governing row of the reference line table',
                                    dict(ctx, pc=hex(pc), got=pl, want=sorted(cands)))
                v.count('reference_ambiguous_rows', amb)
            # places in a line range are real statement rows of those lines
            for f in prep.b.side['funcs'][:6]:
                lo_l, hi_l = f['decl_line'], f['end_line']
                pr = S.cmd('places_range', file=src, start=lo_l, end=hi_l)
                v.count('range_queries')
                for pl in pr.get('ok') or []:
                    rows = [x for x in dw.rows_at(pl['addr']) if x.line == pl['line']]
                    if not rows or not (lo_l <= pl['line'] <= hi_l):
                        endseq = [x for x in dw.rows if x.addr == pl['addr'] and x.end_seq and x.line == pl['line']]
                        why = 'end-sequence-row-offered-as-location' if endseq else 'place-not-in-line-table'
                        v.violation(f'c04:range:{why}', 'a breakpoint location offered for a line range is not a row of such a line',
                                    dict(ctx, place=pl, range=[lo_l, hi_l]))
                        break
        v.case(signature=('c04', idx, tuple(sorted(cfg.items()))),
               sample={'program': src, 'cfg': cfg, 'lines': nlines, 'functions': names[:12], 'instructions': len(insns)})
        v.count('binaries')
    except Crash as c:
        v.violation(f'crash:{c.kind}:{(c.info or {}).get("panic", {}).get("loc") if c.kind == "panic" else (c.info or {}).get("cmd")}',
                    f'debugger {c.kind} during lookups', {'info': c.info, 'history': S.history[-10:], 'binary': prep.b.path}, prop='C08')
    finally:
        S.close()
    return v.export()


def two_crate_sources(seed):
    """a library crate whose generic functions are instantiated in the binary's compilation unit while its plain functions stay in
    the library's unit: one source file with code in two units. Functions follow each other without a blank line, so the line after
    a generic function's last line is the first line of a function that lives in the other unit."""
    import random
    rng = random.Random(seed)
    L = ['#![allow(dead_code, unused)]']
    names = []
    for i in range(rng.randint(3, 5)):
        g, p_ = f'zq_gen{i}', f'zq_plain{i}'
        L.append(f'pub fn {g}<T: Copy + PartialOrd>(xs: &[T]) -> T {{')
        L.append('    let mut best = xs[0];')
        for _ in range(rng.randint(0, 2)):
            L.append('    let first = xs[0];')
        L.append('    for &x in xs {')
        L.append('        if x > best {')
        L.append('            best = x;')
        L.append('        }')
        L.append('    }')
        L.append('    best')
        L.append('}')
        if rng.random() < 0.3:
            L.append('')
        L.append(f'pub fn {p_}(v: u64) -> u64 {{')
        L.append(f'    let w = v.wrapping_mul({rng.randint(3, 99)});')
        L.append('    w ^ 5')
        L.append('}')
        if rng.random() < 0.5:
            L.append('// a comment line')
        names.append((g, p_))
    L.append('pub mod inner {')
    L.append('    pub fn zq_mod_plain(v: u32) -> u32 { v + 1 }')
    L.append('    pub fn zq_mod_gen<T: Clone>(t: &T) -> T {')
    L.append('        t.clone()')
    L.append('    }')
    L.append('}')
    M = ['#![allow(dead_code, unused)]', 'extern crate zqml;', 'fn main() {', '    let mut acc = 0u64;']
    for g, p_ in names:
        M.append(f'    acc += zqml::{g}(&[3u64, 9, 4]);')
        M.append(f'    acc += zqml::{g}(&[2u8, 7]) as u64;')
        if rng.random() < 0.5:
            M.append(f'    acc += zqml::{g}(&[1.5f64, 0.5]) as u64;')
        M.append(f'    acc = zqml::{p_}(acc);')
    M.append('    acc += zqml::inner::zq_mod_plain(3) as u64 + zqml::inner::zq_mod_gen(&7u16) as u64;')
    M.append('    println!("{}", acc);')
    M.append('}')
    return '\n'.join(L) + '\n', '\n'.join(M) + '\n'


def two_crate_case(spec):
    """file:line breakpoints in a source file that has code in two compilation units"""
    idx, tc, tier = spec
    from . import corpus, dwarfref
    v = Verdict('C04', tier, '')
    libsrc, mainsrc = two_crate_sources(common.seed() * 100 + idx)
    try:
        lib = corpus.compile_rust('zqml', libsrc, corpus.Config(tc=tc, crate_type='rlib'), {})
        b = corpus.compile_rust(f'twocrate{idx}', mainsrc, corpus.Config(tc=tc, extra=('--extern', f'zqml={lib.path}')), {})
        dw = dwarfref.DwarfRef(b.path, [b.src, lib.src])
    except Exception as e:
        v.inconc('prepare-failed', str(e)[-300:])
        return v.export()
    src = os.path.basename(lib.src)
    rows = dw.user_file_rows(src)
    units = {r.file[0] for r in rows if not r.end_seq and r.line > 0}
    ctx = {'binary': b.path, 'src': lib.src, 'leg': 'two-crates', 'units_with_code_for_the_file': len(units)}
    if len(units) < 2:
        v.inconc('file-has-code-in-one-unit-only', ctx)
        return v.export()
    S = Session(b, v, mon=False)
    try:
        S.launch()
        judge_lines(S, v, dw, rows, src, len(libsrc.split('\n')), ctx)
        v.count('two_unit_files')
        v.case(signature=('c04-two-crates', idx, tc), sample={'library': src, 'units': len(units), 'toolchain': tc})
    except Crash as c:
        v.violation(f'crash:{c.kind}:{(c.info or {}).get("panic", {}).get("loc") if c.kind == "panic" else (c.info or {}).get("cmd")}',
                    f'debugger {c.kind} during lookups', {'info': c.info, 'history': S.history[-10:], 'binary': b.path}, prop='C08')
    finally:
        S.close()
    return v.export()


def _prep(p):
    idx, cfg = p
    try:
        flowlib.prepare(idx, **dict(cfg))
    except Exception as e:
        return str(e)


def main(tier):
    rule = ('case = one generated binary (program x toolchain x opt-level x DWARF version); every instruction boundary of every user function '
            '(llvm-objdump) is resolved to function and file:line, every source line 1..N+2 and every user function name is turned into '
            'breakpoint addresses; answers are compared with the llvm-dwarfdump decode; distinct = distinct (program, config)')
    V = Verdict('C04', tier, rule)
    V.minima = {'pc_lookups': 2000, 'line_queries': 300, 'function_queries': 40, 'multi_instance_line_queries': 5} if tier == 'quick' else \
        {'pc_lookups': 100000, 'line_queries': 15000, 'function_queries': 1500, 'multi_instance_line_queries': 300}
    V.assumptions = ['only user compilation units are judged', 'when several rows share the governing address any of their lines is accepted',
                     'nightly 1.97 is outside BugStalker\'s supported rustc table and is not exercised; non-PIE is C18\'s subject']
    if tier == 'quick':
        cfgs = [dict(tc='1.89', opt=0, dwarf=4, pie=True), dict(tc='1.95', opt=1, dwarf=5, pie=True),
                dict(tc='1.89', opt=1, dwarf=5, pie=True), dict(tc='1.95', opt=0, dwarf=4, pie=True)]
        specs = [(i, cfgs[i], tier) for i in range(4)]
    else:
        cfgs = [dict(tc=tc, opt=o, dwarf=d, pie=True) for tc in ('1.89', '1.95') for o in (0, 1) for d in (4, 5)]
        specs = [(i, c, tier) for i in range(12) for c in cfgs]
    common.parallel_map(_prep, sorted({(s[0], tuple(sorted(s[1].items()))) for s in specs}))
    for res in common.safe_map(run_case, specs):
        V.merge(res)
    # a source file with code in two compilation units (library crate with generics instantiated in the binary)
    V.minima['two_unit_files'] = 3 if tier == 'quick' else 30
    tw = [(i, ('1.89', '1.95')[i % 2], tier) for i in range(4 if tier == 'quick' else 40)]
    for res in common.safe_map(two_crate_case, tw):
        V.merge(res)
    return V.finish()
