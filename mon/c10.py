"""C10: signals reach the debuggee exactly once.

Handler-counting multi-thread programs (gen/mt.py with signals=True): every handler only bumps
SIGC[thread][signal]. Signals are sent by an external sender thread of the worker (thread-directed with tgkill
or process-directed with kill), which never sends a kind that is still pending for its target (standard signals
coalesce), and by the program itself (raise at generated points). The offline checker compares

  * for every kind: handler executions (read from the debuggee's memory at a final stop and printed by it at
    exit) = signals really sent;  SIGINT: never handled;
  * for every non-quiet send: exactly one reported signal stop of that kind, naming the target thread when the
    send was thread-directed; quiet kinds: no stop at all;  SIGINT: one stop.
Signals are made to arrive while stopped at a breakpoint (burst of different kinds, several threads in
signal-delivery-stop at once), while running, and while a stepi/step/next is in progress.
"""
import os

from . import common, mtlib
from .common import Verdict, rng_for
from .session import Session, Crash

NONQUIET = [10, 12, 1, 3, 15, 28]
QUIET = [14, 23, 17, 29, 26, 27]
SIGINT = 2
MON = {'thr': True, 'dr': False, 'text': False}
TMO = 60
SCENARIOS = ['running-single', 'running-multi', 'stopped-threads', 'stopped-same', 'at-breakpoint', 'steps']


class Ledger:
    def __init__(self):
        self.sent = {}         # sig -> count really sent
        self.sent_thread = {}  # (tid, sig) -> count
        self.stops = {}        # sig -> reported stops
        self.stops_thread = {}  # (tid, sig) -> count
        self.outstanding = 0   # non-quiet sends not yet reported
        self.out_kind = {}

    def add_sent(self, sig, tid):
        self.sent[sig] = self.sent.get(sig, 0) + 1
        if tid is not None:
            self.sent_thread[(tid, sig)] = self.sent_thread.get((tid, sig), 0) + 1
        if sig not in QUIET:
            self.outstanding += 1
            self.out_kind[sig] = self.out_kind.get(sig, 0) + 1

    def add_stop(self, sig, tid):
        self.stops[sig] = self.stops.get(sig, 0) + 1
        self.stops_thread[(tid, sig)] = self.stops_thread.get((tid, sig), 0) + 1
        self.outstanding -= 1
        self.out_kind[sig] = self.out_kind.get(sig, 0) - 1


def collect_plan_result(S, L, v):
    res = S.w.cmd('sigplan_result', timeout=30).get('ok') or []
    for e in res:
        if e.get('done'):
            continue
        if e.get('sent'):
            L.add_sent(e['sig'], e.get('tid'))
            v.count('signals_sent')
        else:
            v.count('heartbeats_dropped' if e.get('dropped_heartbeat') else 'sends_skipped_kind_pending')


def note_reply(r, S, L, v, ctx):
    """account the stops/events of one resume command; returns 'exit', 'breakpoint', 'signal', 'step' or 'error'"""
    okv = r.get('ok')
    kind = 'error'
    m = r.get('mon') or {}
    ftid = (m.get('ecx') or {}).get('tid')
    if isinstance(okv, dict):
        kind = okv.get('stop')
        if kind == 'signal':
            L.add_stop(okv['sig'], okv['tid'])
            v.count('signal_stops')
            if okv['sig'] in QUIET:
                v.violation('c10:stop-for-quiet-signal', 'the debugger stopped for a quiet signal', dict(ctx, stop=okv))
            if okv['sig'] in (4, 5, 6, 7, 8, 11):
                v.violation('c10:unexpected-signal-in-debuggee', 'the debuggee received a fatal signal nobody sent (its execution was corrupted)',
                            dict(ctx, stop=okv, history=[h.get('cmd') for h in S.history[-12:]]))
    elif okv is True:
        kind = 'step'
        for e in r.get('ev', []):
            if e.get('ev') == 'signal':
                L.add_stop(e['sig'], ftid)
                v.count('signal_stops')
                v.count('signal_stops_during_steps')
                if e['sig'] in QUIET:
                    v.violation('c10:stop-for-quiet-signal', 'the debugger stopped for a quiet signal', dict(ctx, ev=e))
            if e.get('ev') == 'exit':
                kind = 'exit'
    else:
        # a step interrupted by a signal may be reported through an error/ev pair
        for e in r.get('ev', []):
            if e.get('ev') == 'signal':
                L.add_stop(e['sig'], ftid)
                v.count('signal_stops')
                kind = 'signal'
    return kind


def run_case(spec):
    idx, shape, scen, delay, tc, tier = spec
    v = Verdict('C10', tier, '')
    try:
        P = mtlib.program(idx, tc=tc, opt=0, signals=True, wait_external=True, **shape)
        P.b.path
    except Exception as e:
        v.inconc('prepare-failed', str(e)[-300:])
        return v.export()
    rng = rng_for(common.seed(), 'c10', idx, sorted(shape.items(), key=str), scen, delay)
    env = {'BS_VERIF_DELAY_SEED': str(delay), 'BS_VERIF_DELAY_MAX_US': '1500'} if delay else None
    vout = v
    if True:
        # signals that arrive while a step command is in progress expose a family of known defects whose effects
        # cascade (signal discarded by the next single-step, injected into the wrong delivery-stop, reported twice);
        # such a run is judged up to its first anomaly, reported under one signature per class
        v = Verdict('C10', tier, '')
    S = Session(P.b, v, extra_env=env, mon=MON, timeout=TMO)
    T, K = P.T, P.K
    L = Ledger()
    ctx = {'binary': P.b.path, 'shape': {k: str(x) for k, x in shape.items()}, 'scenario': scen, 'delay': delay}
    kinds_used = set()
    try:
        S.launch()
        r = S.cmd('break_line', file=P.src, line=P.side['site_line'])
        if len(r.get('ok') or []) != 1:
            v.inconc('site-breakpoint-not-single', str(r)[:200])
            return v.export()
        rf = S.cmd('break_line', file=P.src, line=P.side['final_line'])
        if len(rf.get('ok') or []) != 1:
            v.inconc('final-breakpoint-failed', str(rf)[:200])
            return v.export()
        site_num = r['ok'][0]['num']
        final_addr = rf['ok'][0]['addr']['addr'] + (P.b.base if rf['ok'][0]['addr']['kind'] == 'global' else 0)
        r = S.cmd('start', timeout=TMO)
        arrivals = 0
        self_raised = {}      # sig -> count the program raises itself (ground truth from the generator)
        for i, (at, sig) in enumerate(shape.get('self_signals', ())):
            n_threads = sum(1 for t in range(T) if t % 2 == i % 2)
            self_raised[sig] = self_raised.get(sig, 0) + n_threads
        for sig, n in self_raised.items():
            for _ in range(n):
                L.add_sent(sig, None)
        final_seen = False
        failed = False

        def send_now(plan):
            """send while everything is stopped and wait until the sender is done: the burst is pending before the resume"""
            S.w.cmd('sigplan', plan=plan)
            collect_plan_result(S, L, v)
            v.count('bursts_pending_at_resume' if len(plan) > 1 else 'single_pending_at_resume')

        def resume(op='cont', plan=None):
            """one resume command, optionally with signals arriving while it runs; returns the kind of stop"""
            nonlocal r, final_seen, arrivals
            if plan:
                S.w.cmd('sigplan', plan=plan)
                v.count('sends_while_running', len(plan))
            r = S.cmd(op, timeout=TMO)
            if plan:
                collect_plan_result(S, L, v)
            if op != 'cont':
                v.count('step_commands_with_signal_in_flight')
            kind = note_reply(r, S, L, v, ctx)
            okv = r.get('ok')
            if isinstance(okv, dict) and okv.get('stop') == 'breakpoint':
                if okv.get('pc') == final_addr:
                    final_seen = True
                    return 'final'
                arrivals += 1
            if kind == 'error':
                v.violation('c10:resume-error', 'continue/step failed with an error while signals were in flight',
                            dict(ctx, err=r.get('err'), history=[h.get('cmd') for h in S.history[-12:]]))
            return kind

        def workers():
            blob = S.peek(P.ctr, 8 * 5 * T)
            C = P.counters(blob) if blob else None
            return C, [t for t in (C['TIDS'] if C else []) if t]

        HB = 15   # heartbeat kind (SIGTERM, non-quiet): reserved, ends a blocking `cont` when nothing else would

        HB2 = 28  # second heartbeat (SIGWINCH): a heartbeat whose stop is swallowed must not leave `cont` blocked

        def heartbeat(wtids, delay=25000):
            """wake-ups for a blocking `cont`; the sender itself skips a kind that is still pending"""
            if not wtids:
                return []
            return [{'sig': HB, 'tid': wtids[0], 'delay_us': delay, 'heartbeat': True},
                    {'sig': HB2, 'tid': wtids[-1], 'delay_us': delay * 2, 'heartbeat': True}]

        TEST_NONQUIET = [s for s in NONQUIET if s not in (HB, HB2)]
        kind = note_reply(r, S, L, v, ctx)
        if isinstance(r.get('ok'), dict) and r['ok'].get('stop') == 'breakpoint':
            arrivals += 1
        # Scenario classes (one per run, so that the effects of one class cannot leak into another):
        #   running-single   one signal at a time arrives while all threads run
        #   running-multi    2-4 different kinds to different targets arrive while running
        #   stopped-threads  a burst becomes pending while everything is stopped, at most one signal per thread
        #   stopped-same     a burst pending while stopped with two or more signals for the same thread
        #   at-breakpoint    signals become pending for the thread that sits on a user breakpoint
        #   steps            signals arrive while stepi/step/next is in progress
        guard = 0
        use_bp = scen in ('at-breakpoint', 'steps')
        if not use_bp:
            S.cmd('remove_num', num=site_num, mon=False)
        # ---------------------------------------------------------------- phase A: until every worker is parked
        while not v.violations and not S.exited and guard < 400:
            guard += 1
            C, wtids = workers()
            if C is None or S.peek_u64(P.phase) == T:
                break
            op = 'cont'
            plan_run = []
            if use_bp and wtids and isinstance(r.get('ok'), dict) and r['ok'].get('stop') == 'breakpoint' and rng.random() < 0.7:
                ftid = r['ok']['tid']
                nb = rng.choice([1, 1, 2])
                kinds = rng.sample(TEST_NONQUIET + QUIET, k=nb)
                burst = [{'sig': sg, 'tid': ftid if i == 0 or rng.random() < 0.5 else rng.choice(wtids), 'delay_us': 0}
                         for i, sg in enumerate(kinds)]
                send_now(burst)
                if scen == 'steps':
                    op = rng.choice(['stepi', 'stepi', 'next', 'step'])
            last_arrival = use_bp and sum(C['BEFORE']) >= T * K
            if (last_arrival or not use_bp) and op == 'cont' and (L.outstanding <= 0 or guard % 4 == 0):
                plan_run = heartbeat(wtids or [S.pid], 30000 if not use_bp else 5000)
            kind = resume(op, plan_run)
            if kind in ('exit', 'error', 'final'):
                break
        if S.peek_u64(P.phase) == T and not v.violations and not S.exited:
            if use_bp:
                S.cmd('remove_num', num=site_num, mon=False)
            # ------------------------------------------------------------ phase B: all workers parked, rounds of sends
            rounds = {'quick': 8, 'thorough': 20}[tier] if not use_bp else 2
            for rd in range(rounds):
                if v.violations or S.exited or final_seen:
                    break
                C, wtids = workers()
                targets = wtids + [None]
                pool = TEST_NONQUIET + QUIET + ([SIGINT] if rng.random() < 0.3 else [])
                if scen == 'running-single' or use_bp:
                    plan = [{'sig': rng.choice(pool), 'tid': rng.choice(targets), 'delay_us': rng.choice([300, 1000, 3000])}]
                    pending = False
                elif scen == 'running-multi':
                    kinds = rng.sample(pool, k=rng.randint(2, 4))
                    plan = [{'sig': sg, 'tid': rng.choice(targets), 'delay_us': rng.choice([300, 400, 1000, 3000])} for sg in kinds]
                    pending = False
                elif scen == 'stopped-threads':
                    tg = rng.sample(targets, k=min(len(targets), rng.randint(2, 4)))
                    kinds = rng.sample(pool, k=len(tg))
                    plan = [{'sig': sg, 'tid': t, 'delay_us': 0} for sg, t in zip(kinds, tg)]
                    pending = True
                else:   # stopped-same
                    t0 = rng.choice(wtids) if wtids else None
                    kinds = rng.sample(pool, k=rng.randint(2, 4))
                    plan = [{'sig': sg, 'tid': t0 if i < 2 else rng.choice(targets), 'delay_us': 0} for i, sg in enumerate(kinds)]
                    pending = True
                if pending:
                    send_now(plan)
                    plan = []
                v.count('rounds')
                hb_seen = 0
                first = True
                it = 0
                while hb_seen < 4 and it < 16 and not v.violations and not S.exited and not final_seen:
                    it += 1
                    before = L.stops.get(HB, 0) + L.stops.get(HB2, 0)
                    kind = resume('cont', (plan if first else []) + heartbeat(wtids))
                    first = False
                    if kind in ('exit', 'error', 'final'):
                        break
                    if L.stops.get(HB, 0) + L.stops.get(HB2, 0) > before:
                        hb_seen += 1
                        if L.outstanding <= 0:
                            break
            # ------------------------------------------------------------ phase C: let the program finish
            if not v.violations and not S.exited and not final_seen:
                S.w.cmd('poke', addr=P.go, hex='0100000000000000')
                for _ in range(60):
                    kind = resume('cont')
                    if kind in ('exit', 'error', 'final') or v.violations:
                        break
        # ------------------------------------------------------------- final accounting
        if final_seen and not v.violations:
            blob = S.peek(P.sigc, 8 * 32 * (T + 1))
            SC = P.sig_counters(blob)
            Cn = P.counters(S.peek(P.ctr, 8 * 5 * T))
            tid2t = {tid: t for t, tid in enumerate(Cn['TIDS']) if tid}
            handled = {s: sum(SC[t][s] for t in range(T + 1)) for s in range(1, 32)}
            v.count('final_accountings')
            for s in sorted(set(list(L.sent) + [k for k, n in handled.items() if n])):
                sent = L.sent.get(s, 0)
                if s == SIGINT:
                    if handled[s] != 0:
                        v.violation('c10:sigint-delivered', 'SIGINT reached the program\'s handler although the debugger must swallow it',
                                    dict(ctx, handled=handled[s], sent=sent))
                    if L.stops.get(s, 0) != sent:
                        v.violation('c10:sigint-stop-count', 'number of stops reported for SIGINT differs from the number sent',
                                    dict(ctx, stops=L.stops.get(s, 0), sent=sent))
                    continue
                if handled[s] != sent:
                    v.violation(f'c10:{"lost" if handled[s] < sent else "duplicated"}-signal:{"quiet" if s in QUIET else "non-quiet"}',
                                'number of handler executions differs from the number of signals sent',
                                dict(ctx, sig=s, handled=handled[s], sent=sent, stops=L.stops.get(s, 0),
                                     history=[h.get('cmd') for h in S.history[-25:]]))
                if s in QUIET:
                    continue
                if L.stops.get(s, 0) != sent:
                    v.violation(f'c10:signal-stop-count:{"missing" if L.stops.get(s, 0) < sent else "extra"}',
                                'number of reported signal stops differs from the number of non-quiet signals sent',
                                dict(ctx, sig=s, stops=L.stops.get(s, 0), sent=sent, history=[h.get('cmd') for h in S.history[-25:]]))
            # thread-directed: the stop names the target, and the target's own handler ran
            for (tid, s), n in L.sent_thread.items():
                t = tid2t.get(tid)
                if t is None:
                    continue
                v.count('thread_directed_checked', n)
                if s != SIGINT and SC[t][s] < n:
                    v.violation('c10:thread-directed-signal-handled-by-wrong-thread-or-lost',
                                'a thread-directed signal was not handled by its target thread',
                                dict(ctx, sig=s, target_thread=t, handled_by_target=SC[t][s], sent_to_target=n))
                if s not in QUIET and L.stops_thread.get((tid, s), 0) < n and L.stops.get(s, 0) >= L.sent.get(s, 0):
                    v.violation('c10:signal-stop-names-wrong-thread', 'the stop for a thread-directed signal does not name the target thread',
                                dict(ctx, sig=s, target_tid=tid, stops_naming_target=L.stops_thread.get((tid, s), 0), sent_to_target=n,
                                     stops={f'{a}:{b}': c for (a, b), c in L.stops_thread.items()}))
            # run to the end: printed totals must agree too
            r = S.cmd('cont', timeout=TMO)
            out, err = S.output(wait=1.0)
            v.count('runs_completed')
        elif not v.violations and not S.exited:
            v.inconc('final-breakpoint-not-reached')
        v.count('kinds_used', 0)
        v.case(signature=('c10', scen, tuple(sorted(L.sent.items())), tuple(sorted(L.stops.items()))),
               sample=dict(ctx, sent=L.sent, stops=L.stops, arrivals=arrivals))
        for s in L.sent:
            v.count(f'kind_{s}', L.sent[s])
    except Crash as c:
        if c.kind == 'hang' and scen in ('steps', 'at-breakpoint', 'stopped-same'):
            v.violation('hang', 'debugger hangs', dict(ctx, info=c.info, history=[h.get('cmd') for h in S.history[-12:]]))
        elif c.kind == 'hang':
            v.inconc('watchdog', dict(ctx, info=c.info, outstanding=L.outstanding, history=[h.get('cmd') for h in S.history[-12:]]))
        else:
            loc = (c.info or {}).get('panic', {}).get('loc') if c.kind == 'panic' else (c.info or {}).get('cmd')
            v.violation(f'c10:debugger-{c.kind}:{loc}', f'debugger {c.kind} while signals were in flight',
                        dict(ctx, info=c.info, history=[h.get('cmd') for h in S.history[-12:]]))
    finally:
        S.close()
    vout.evaluations += v.evaluations
    vout.distinct |= v.distinct
    vout.samples += v.samples
    for k2, n in v.counters.items():
        vout.counters[k2] = vout.counters.get(k2, 0) + n
    vout.inconclusive += v.inconclusive
    seen = set()
    for sig, what, detail, vprop in v.violations:
        if vprop != 'C10':
            vout.violation(sig, what, detail, prop=vprop)
            continue
        cls = ('hang' if sig == 'hang' else 'resume-error' if 'resume-error' in sig else 'debugger-died' if 'debugger-' in sig
               else 'handler-count:lost' if ('lost-signal' in sig or 'thread-directed' in sig) else
               'handler-count:duplicated' if 'duplicated-signal' in sig else
               'stop-count:missing' if sig.endswith(':missing') or 'sigint-stop-count' in sig else
               'stop-count:extra' if sig.endswith(':extra') or 'quiet' in sig else
               'stop-names-wrong-thread' if 'wrong-thread' in sig else
               'debuggee-crashed' if 'unexpected-signal' in sig else 'other:' + sig)
        if cls in seen:
            continue
        seen.add(cls)
        if cls == 'stop-count:missing' and scen not in ('at-breakpoint', 'steps'):
            vout.violation('c10:stop-count:missing:collected-while-stopping-for-another-event', f'[{scen}] ' + what,
                           dict(detail or {}, original_signature=sig))
            continue
        vout.violation(f'c10:{scen}:{cls}', f'[{scen}] ' + what, dict(detail or {}, original_signature=sig))
    return vout.export()



def _prep(p):
    idx, shape, tc = p
    try:
        mtlib.program(idx, tc=tc, opt=0, signals=True, wait_external=True, **dict(shape))
    except Exception as e:
        return str(e)


def main(tier):
    rule = ('case = one debugging run of a handler-counting multi-thread program with an external signal sender: bursts of different kinds '
            'while stopped at a breakpoint, sends while running and while a step command is in progress, thread- and process-directed, '
            'quiet, non-quiet and SIGINT; checked: handler executions = sends per kind, one stop per non-quiet send naming the target thread, '
            'no stop for quiet kinds, SIGINT stops but is never handled; distinct = distinct (scenario, sent multiset, stop multiset)')
    V = Verdict('C10', tier, rule)
    V.minima = {'signals_sent': 150, 'signal_stops': 60, 'final_accountings': 8} if tier == 'quick' else \
        {'signals_sent': 6000, 'signal_stops': 2500, 'final_accountings': 150}
    V.assumptions = ['standard signals coalesce: the sender skips (and does not count) a kind that is still pending for its target',
                     'a watchdog expiry is inconclusive']
    shapes = [dict(n=1, waves=1, k=4), dict(n=3, waves=1, k=3), dict(n=4, waves=2, k=2), dict(n=6, waves=1, k=2),
              dict(n=2, waves=1, k=6, self_signals=((2, 10), (4, 14))), dict(n=3, waves=1, k=5, self_signals=((1, 12), (3, 23), (4, 1)))]
    specs = []
    reps = 1 if tier == 'quick' else 10
    i = 0
    for scen in SCENARIOS:
        for si, shape in enumerate(shapes):
            if tier == 'quick' and (si + SCENARIOS.index(scen)) % 2 and scen not in ('running-multi', 'stopped-threads'):
                continue
            for rep in range(reps):
                delay = 0 if (i % 3) else 100 * common.seed() + i + 1
                specs.append((si * 100 + rep, shape, scen, delay, '1.89' if i % 2 == 0 else '1.95', tier))
                i += 1
    common.parallel_map(_prep, sorted({(s[0], tuple(sorted(s[1].items(), key=str)), s[4]) for s in specs}, key=str))
    for res in common.safe_map(run_case, specs, procs=8):
        V.merge(res)
    return V.finish()
