"""C05: the backtrace is the real call stack.

At located stops of the reference trace the debugger's backtrace is compared with the tracer's
shadow call stack (return addresses of the calls actually in progress, innermost first); CFA and
return address of frame_info with the real stack slot; frame selection with per-activation
argument values of the recursive function.
"""
import os

from . import common, flowlib
from .common import Verdict, rng_for
from .flowrun import Ref, position, run_to
from .session import Session, Crash


def judge_backtrace(S, ref, k, v, ctx, how):
    T = ref.T
    r = S.cmd('backtrace', mon=False)
    if 'ok' not in r:
        v.violation(f'c05:backtrace-error:{how}', f'backtrace failed at a stop: {r.get("err")}', dict(ctx, index=k))
        return None
    bt = r['ok']
    shadow = T.stack_at(k)            # outermost first
    exp = [T.pc[k]] + [c[4] for c in reversed(shadow)]
    got = [f['ip'] for f in bt]
    v.count('backtraces_checked')
    v.count('frames_compared', min(len(exp), len(got)))
    depth = len(exp)
    rec_frames = sum(1 for c in shadow if ref.func_at(c[3]) is not None and ref.func_at(c[3]).name == 'rec')
    if depth >= 100:
        v.count('deep_backtraces_100')
    detail = dict(ctx, index=k, expected=[hex(a) for a in exp[:40]], got=[hex(a) for a in got[:40]],
                  expected_depth=len(exp), got_depth=len(got), funcs=[f['func'] for f in bt[:12]])
    if got != exp:
        # classify
        n = 0
        while n < min(len(got), len(exp)) and got[n] == exp[n]:
            n += 1
        if n == len(got) and len(got) < len(exp):
            # truncated: is the first missing frame a repeated return address?
            rep = exp[n] in exp[:n]
            cls = 'truncated-at-repeated-return-address' if rep else 'truncated'
        elif n == len(exp):
            cls = 'extra-frames'
        else:
            cls = 'wrong-frame'
        v.violation(f'c05:{cls}:{how}', 'backtrace differs from the real call chain (shadow stack of the reference trace)',
                    dict(detail, first_difference=n))
    return bt, shadow, rec_frames


def judge_frame_info(S, ref, k, v, ctx, shadow):
    T = ref.T
    r = S.cmd('frame_info', mon=False)
    if 'ok' not in r:
        v.violation('c05:frame-info-error', f'frame info failed: {r.get("err")}', dict(ctx, index=k))
        return
    fi = r['ok']
    if not shadow:
        return
    inner = shadow[-1]
    v.count('frame_infos_checked')
    exp_cfa = inner[5] + 8
    if fi['cfa'] != exp_cfa or fi['return_addr'] != inner[4]:
        v.violation('c05:frame-info-cfa-or-return-address', 'CFA / return address of the selected frame do not match the real stack',
                    dict(ctx, index=k, frame_info=fi, expected_cfa=hex(exp_cfa), expected_ret=hex(inner[4])))
    # the word below the CFA really is the return address (raw memory)
    w = S.peek_u64(fi['cfa'] - 8)
    if w is not None and fi['return_addr'] is not None and w != fi['return_addr']:
        v.violation('c05:return-address-not-on-stack', 'the word at CFA-8 is not the reported return address',
                    dict(ctx, index=k, frame_info=fi, word=hex(w)))


def scalar_int(val):
    try:
        if val['k'] == 'scalar' and val['v'] and 'v' in val['v']:
            return int(val['v']['v'])
    except Exception:
        pass
    return None


def judge_frame_selection(S, ref, k, v, ctx, bt, shadow, rng):
    """in the recursive function every activation has its own n: frame i of the rec chain holds rd-(R-1)+i"""
    side = ref.prep.b.side
    rd = side['rec_depth']
    rec_low = None
    for sp in ref.prep.user_funcs:
        if sp.name == 'rec':
            rec_low = sp.low() + ref.base
    if rec_low is None:
        return
    # innermost-first list of activations: frame 0 is the current function
    chain = list(reversed(shadow))
    cur = ref.func_at(ref.T.pc[k])
    if cur is None or cur.name != 'rec':
        return
    # frames 0..m-1 are consecutive rec activations
    m = 0
    while m < len(chain) and chain[m][3] == rec_low:
        m += 1
    R = sum(1 for c in shadow if c[3] == rec_low)
    if m == 0:
        return
    # arguments are readable only after the prologue: skip stops inside it
    lo, hi = cur.ranges[0]
    pe = [r_.addr for r_ in ref.dw.rows if lo <= r_.addr < hi and r_.prologue_end]
    if not pe or ref.T.pc[k] - ref.base < min(pe):
        return
    frames = sorted(set([0, m - 1] + [rng.randrange(m) for _ in range(3)]))
    for fnum in frames:
        if fnum >= len(bt):
            continue
        if fnum > 0:
            # frames above the innermost are stopped after their call: always past the prologue
            pass
        r = S.cmd('frame', mon=False, num=fnum)
        if 'ok' not in r:
            v.violation('c05:frame-select-error', f'selecting an existing frame failed: {r.get("err")}', dict(ctx, frame=fnum))
            continue
        a = S.cmd('arg', mon=False, expr='n')
        v.count('frame_selections')
        want = rd - (R - 1) + fnum
        vals = [scalar_int(x['value']) for x in (a.get('ok') or [])]
        if (ctx.get('cfg') or {}).get('opt', 0) >= 1:
            # In optimized code the argument is kept in registers that are reused as soon as it is dead: "n holds its source value at
            # every pc after the prologue" is not something the program guarantees, so the value is no oracle here (the first thorough
            # runs raised two alarms of this kind, one of them in frame 0). Values in optimized code are judged by C19 at points where
            # the program keeps the variables alive; here only the selection itself is exercised.
            v.count('frame_selections_in_optimized_code_not_judged_by_value')
            continue
        if vals != [want]:
            v.violation('c05:frame-selection-reads-wrong-activation',
                        'argument read after selecting frame k is not the value of that activation',
                        dict(ctx, index=k, frame=fnum, want_n=want, got=vals, reply=a.get('err')))
    S.cmd('frame', mon=False, num=0)


def run_case(spec):
    idx, seq, cfg, tier = spec
    v = Verdict('C05', tier, '')
    try:
        prep = flowlib.prepare(idx, **cfg)
    except Exception as e:
        v.inconc('prepare-failed', str(e))
        return v.export()
    okk, why = prep.oracle_ok()
    if not okk:
        v.inconc('oracle-unusable', why)
        return v.export()
    rng = rng_for(common.seed(), 'c05', idx, seq, sorted(cfg.items()))
    ref = Ref(prep)
    T = ref.T
    S = Session(prep.b, v)
    sig = []
    try:
        S.launch()
        user_stmt = [a for a in prep.stmt_addrs(executed_only=True) if ref.is_user_fn(ref.func_at(a))]
        rec_stmt = [a for a in user_stmt if ref.func_at(a).name in ('rec', 'ping', 'pong')]
        cursor = -1
        hot_fn = [a for a in user_stmt if ref.func_at(a).name in ('mix', 'one', 'onerec', 'area', 'gen_id', 'apply') and len(T.by_pc()[a]) > 3]
        for stopno in range(rng.randint(2, 4)):
            mode = rng.random()
            pool = hot_fn if (hot_fn and mode < 0.35) else (rec_stmt if (rec_stmt and mode < 0.7) else user_stmt)
            addr = rng.choice(pool)
            lst = T.by_pc()[addr]
            import bisect
            first = bisect.bisect_right(lst, cursor)
            remaining = len(lst) - first
            if remaining <= 0:
                continue
            # every arrival at this breakpoint is a stop whose backtrace is judged (same pc, often the same
            # rsp, different callers); for deep recursion skip ahead first
            skip = 0
            if ref.func_at(addr).name == 'rec' and remaining > 20 and rng.random() < 0.6:
                skip = rng.randrange(min(remaining - 1, 300))
            narr = min(remaining - skip, rng.randint(2, 8))
            r = S.cmd('break_addr', addr=addr)
            if 'ok' not in r:
                v.inconc('break-failed', r.get('err'))
                break
            okpos = True
            for n_arr in range(skip + narr):
                rep = S.cmd('cont' if S.started else 'start')
                okv = rep.get('ok')
                if not okv or okv.get('stop') != 'breakpoint' or okv.get('pc') != addr:
                    v.inconc('positioning-failed', str(okv or rep.get('err')))
                    okpos = False
                    break
                k = lst[first + n_arr]
                if n_arr < skip:
                    continue
                pos = position(S, rep, okv['tid'])
                if pos is None or (T.pc[k], T.rsp[k], T.tick[k]) != pos:
                    v.inconc('positioning-landed-elsewhere')
                    okpos = False
                    break
                cursor = k
                how = 'breakpoint'
                ctx = {'binary': prep.b.path, 'src': prep.b.src, 'cfg': cfg, 'history': [h for h in S.history[-12:]]}
                res = judge_backtrace(S, ref, k, v, ctx, how)
                if res is None:
                    continue
                bt, shadow, recf = res
                judge_frame_info(S, ref, k, v, ctx, shadow)
                judge_frame_selection(S, ref, k, v, ctx, bt, shadow, rng)
                sig.append((how, min(len(shadow), 20), min(recf, 5)))
            S.cmd('remove_addr', addr=addr)
            if not okpos:
                break
            # then move on with a step and judge the stop after it
            if rng.random() < 0.6:
                kind = rng.choice(['stepi', 'stepi', 'step', 'finish'])
                r = S.cmd(kind, timeout=120)
                pos = position(S, r) if 'ok' in r else None
                k2 = T.locate(*pos, after=cursor) if pos else None
                if k2 is None:
                    continue
                k = cursor = k2
                how = 'after-' + kind
                ctx = {'binary': prep.b.path, 'src': prep.b.src, 'cfg': cfg, 'history': [h for h in S.history[-12:]]}
                res = judge_backtrace(S, ref, k, v, ctx, how)
                if res is not None:
                    bt, shadow, recf = res
                    judge_frame_info(S, ref, k, v, ctx, shadow)
                    judge_frame_selection(S, ref, k, v, ctx, bt, shadow, rng)
                    sig.append((how, min(len(shadow), 20), min(recf, 5)))
        v.case(signature=('c05', idx, tuple(sorted(cfg.items())), tuple(sig[:12])),
               sample={'program': os.path.basename(prep.b.src), 'cfg': cfg, 'stops': [{'how': h, 'depth': d, 'rec_frames': r} for h, d, r in sig[:16]]})
        v.count('histories')
    except Crash as c:
        v.violation(f'crash:{c.kind}:{(c.info or {}).get("panic", {}).get("loc") if c.kind == "panic" else (c.info or {}).get("cmd")}',
                    f'debugger {c.kind} while unwinding', {'info': c.info, 'history': S.history[-40:], 'binary': prep.b.path}, prop='C08')
    finally:
        S.close()
    return v.export()


def _prep(p):
    idx, cfg, validate = p
    try:
        flowlib.prepare(idx, validate=validate, **dict(cfg))
    except Exception as e:
        return str(e)


# ------------------------------------------------------------------------------------------------ mixed CFI leg
MIXED_C = """
#include <stdint.h>
typedef uint64_t (*cb_t)(uint64_t);
uint64_t c05_visit(cb_t cb, uint64_t x) {
    volatile uint64_t pad[4] = {x, x + 1, x + 2, x + 3};
    uint64_t r = cb(pad[1]);
    return r + pad[3];
}
"""

MIXED_RS = """#![allow(dead_code, unused)]
extern "C" { fn c05_visit(cb: extern "C" fn(u64) -> u64, x: u64) -> u64; }
#[inline(never)]
extern "C" fn leaf(x: u64) -> u64 {
    let y = x.wrapping_mul(3);
    y ^ 5
}
#[inline(never)]
fn middle(x: u64) -> u64 { let r = unsafe { c05_visit(leaf, x) }; r.wrapping_add(1) }
#[inline(never)]
fn rec(d: u64, x: u64) -> u64 { if d == 0 { middle(x) } else { rec(d - 1, x + d).wrapping_add(d) } }
fn main() {
    let a = rec(DEPTH, 1);
    let b = rec(2, a);
    println!("{}", a ^ b);
}
"""


def mixed_case(spec):
    """a C object whose unwind information is in .debug_frame only, called from Rust and calling back into Rust: the backtrace
    taken in the callback must go through the C frame into every Rust caller"""
    idx, tier = spec
    import subprocess
    from . import corpus
    v = Verdict('C05', tier, '')
    depth = [3, 9, 40][idx % 3]
    cdir = os.path.join(common.CORPUS, 'build', 'c05mixed')
    os.makedirs(cdir, exist_ok=True)
    cobj = os.path.join(cdir, 'c05_visit.o')
    if not os.path.exists(cobj):
        open(os.path.join(cdir, 'c05_visit.c'), 'w').write(MIXED_C)
        r = subprocess.run(['cc', '-g', '-O0', '-fPIC', '-fno-asynchronous-unwind-tables', '-c', os.path.join(cdir, 'c05_visit.c'), '-o', cobj + '.tmp'],
                           stdout=subprocess.PIPE, stderr=subprocess.STDOUT, text=True)
        if r.returncode != 0:
            v.inconc('cc-failed', r.stdout[-300:])
            return v.export()
        os.replace(cobj + '.tmp', cobj)
    src = MIXED_RS.replace('DEPTH', str(depth))
    b = corpus.compile_rust(f'mixed{depth}', src, corpus.Config(tc='1.89' if idx % 2 else '1.95', extra=('-C', f'link-arg={cobj}')), {})
    # is the C function really described in .debug_frame only? (otherwise the leg shows nothing)
    fr = subprocess.run(['llvm-dwarfdump-14', '--debug-frame', b.path], stdout=subprocess.PIPE, text=True).stdout
    v.count('mixed_cfi_binaries_with_debug_frame', 1 if 'FDE' in fr else 0)
    ctx = {'binary': b.path, 'depth': depth, 'leg': 'mixed-cfi'}
    S = Session(b, v, mon=False)
    try:
        S.launch()
        S.cmd('break_fn', name='leaf')
        r = S.cmd('start')
        for stop_no, rec_frames in ((1, depth + 1), (2, 3)):
            if (r.get('ok') or {}).get('stop') != 'breakpoint':
                v.inconc('mixed-stop-not-reached', str(r)[:200])
                break
            bt = [(f.get('func') or '') for f in (S.cmd('backtrace').get('ok') or [])]
            names = [n.split('::')[-1] for n in bt]
            exp = ['leaf', 'c05_visit', 'middle'] + ['rec'] * rec_frames + ['main']
            v.count('mixed_cfi_backtraces')
            # order preserving match of the expected chain inside the reported frames
            pos = 0
            for n in names:
                if pos < len(exp) and n == exp[pos]:
                    pos += 1
            if pos != len(exp):
                v.violation('c05:truncated-or-wrong:through-debug-frame-only-function',
                            'the backtrace taken below a function whose unwind information lives only in .debug_frame is not the real call chain',
                            dict(ctx, frames=names[:12], n_frames=len(names), expected_head=exp[:6], expected_len=len(exp)))
                break
            v.case(signature=('mixed', depth, stop_no), n=1)
            r = S.cmd('cont')
    except Crash as c:
        v.violation(f'crash:{c.kind}', f'debugger {c.kind} in the mixed CFI leg', dict(ctx, info=c.info), prop='C08')
    finally:
        S.close()
    return v.export()


def main(tier):
    rule = ('case = (generated flow program, config, 2-5 stops reached by breakpoint arrivals (incl. deep recursion) optionally followed by '
            'a step); at each stop backtrace ips are compared with [pc] + return addresses of the shadow call stack down to _start, '
            'frame_info with the real stack slot, frame selection with per-activation argument values; distinct = distinct '
            '(program, config, (stop kind, depth bucket, recursion frames) list)')
    V = Verdict('C05', tier, rule)
    V.minima = {'backtraces_checked': 40, 'frame_infos_checked': 40, 'frame_selections': 20} if tier == 'quick' else \
        {'backtraces_checked': 2000, 'frame_infos_checked': 2000, 'frame_selections': 1000, 'deep_backtraces_100': 50}
    V.assumptions = ['the shadow stack (call = push of the next-instruction address followed by a jump) is the real call chain',
                     'all generated stops are in code with .eh_frame unwind information down to _start']
    if tier == 'quick':
        cfgs = [dict(tc='1.89', opt=0, dwarf=4, pie=True), dict(tc='1.95', opt=0, dwarf=5, pie=True)]
        specs = [(i, s, cfgs[i % 2], tier) for i in range(6) for s in range(6)]
    else:
        cfgs = [dict(tc=tc, opt=o, dwarf=d, pie=True) for tc in ('1.89', '1.95') for o in (0, 1) for d in (4, 5)]
        specs = [(i, s, cfgs[(i + s) % len(cfgs)], tier) for i in range(40) for s in range(12)]
    progs = sorted({(s[0], tuple(sorted(s[2].items())), tier == 'thorough') for s in specs})
    common.parallel_map(_prep, progs)
    for res in common.safe_map(run_case, specs):
        V.merge(res)
    res0 = common._Safe(mixed_case)((0, tier))      # the first case compiles the shared C object; the others run in parallel
    V.merge(res0)
    for res in common.safe_map(mixed_case, [(i, tier) for i in range(1, 3 if tier == 'quick' else 12)], procs=3):
        V.merge(res)
    return V.finish()
