"""Shared preparation for the multi-thread family (C09, C10, C11, C14)."""
import os
import re
import subprocess
import sys

sys.path.insert(0, os.path.dirname(os.path.dirname(os.path.abspath(__file__))))

from gen import mt  # noqa: E402
from . import corpus, common  # noqa: E402

_cache = {}


class MtProg:
    def __init__(self, binary):
        self.b = binary
        self.side = binary.side
        self.T = self.side['T']
        self.K = self.side['k']
        self.ctr = binary.sym_addr('CTR')
        self.sigc = binary.sym_addr('SIGC')
        self.phase = binary.sym_addr('PHASE')
        self.go = binary.sym_addr('GO')
        self.src = os.path.basename(binary.src)
        self._asm = None
        self._native = None

    @property
    def native(self):
        if self._native is None:
            self._native = corpus.native_run(self.b, timeout=120)
        return self._native

    def fn_range(self, name):
        """(low, high) file addresses of the function whose mangled name contains `name`"""
        out = subprocess.run(['nm', '-S', self.b.path], stdout=subprocess.PIPE, text=True).stdout
        for l in out.splitlines():
            p = l.split()
            if len(p) == 4 and re.search(r'\d+' + name + r'17h', p[3]):
                return int(p[0], 16), int(p[0], 16) + int(p[1], 16)
        return None

    def asm_addr(self):
        """relocated address of the `lock inc` instruction in asm_site (from llvm-objdump)"""
        if self._asm is None:
            lo, hi = self.fn_range('asm_site')
            txt = subprocess.run(['llvm-objdump-14', '-d', '--no-show-raw-insn', f'--start-address={lo:#x}',
                                  f'--stop-address={hi:#x}', self.b.path], stdout=subprocess.PIPE, text=True).stdout
            for l in txt.splitlines():
                m = re.match(r'^\s*([0-9a-f]+):\s+lock', l)
                if m:
                    self._asm = int(m.group(1), 16) + self.b.base
                    break
        return self._asm

    def counters(self, blob):
        """decode one CTR snapshot -> dict section -> list"""
        T = self.T
        w = [int.from_bytes(blob[i * 8:i * 8 + 8], 'little') for i in range(5 * T)]
        return {s: w[i * T:(i + 1) * T] for i, s in enumerate(mt.SECTIONS)}

    def sig_counters(self, blob):
        T = self.T
        n = mt.NSIG
        w = [int.from_bytes(blob[i * 8:i * 8 + 8], 'little') for i in range(n * (T + 1))]
        return [w[t * n:(t + 1) * n] for t in range(T + 1)]


def program(idx, tc='1.89', opt=0, **kw):
    key = (common.seed(), idx, tc, opt, tuple(sorted((k, str(v)) for k, v in kw.items())))
    if key not in _cache:
        seed = common.seed() * 1000 + idx
        src, side = mt.gen(seed, **kw)
        tag = common.sha(repr(sorted((k, str(v)) for k, v in kw.items())))[:6]
        b = corpus.compile_rust(f'mt{idx}_{tag}', src, corpus.Config(tc=tc, opt=opt), side)
        _cache[key] = MtProg(b)
    return _cache[key]
