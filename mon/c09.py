"""C09: all-stop and exactly-once reporting for every thread interleaving.

Generated multi-thread programs (N threads x W overlapping waves x K arrivals) keep per-thread atomic
counters around the breakpoint sites: BEFORE (incremented before the call), SITE_EXEC (incremented by the
first statement of `site`, where the line/function breakpoint sits), ASM_EXEC (incremented by one
`lock inc` instruction on which an address breakpoint sits) and AFTER. The monitor is an online checker
over the stop events and these counters:

 * at every reported stop: every kernel task is in tracing stop in two samples 2 ms apart and the counters
   do not move in between (stays stopped); the debugger's thread list equals /proc/<pid>/task (universal
   monitor); for the reporting thread t: BEFORE[t] = stops_reported[t], SITE_EXEC[t] = stops_reported[t]-1
   (resp. ASM_EXEC) - i.e. this arrival was not reported before and no earlier arrival was missed;
 * at exit: every thread was reported exactly K times per site, the counters equal K (no instruction skipped
   or doubled) and the output and exit status equal the native run.
Schedules are perturbed by seeded yields/spins in the debuggee, by pinning debugger+debuggee to 1, 2 or all
CPUs and by the seeded delay points of the `verif` feature inside the tracer.
"""
import hashlib
import os

from . import common, mtlib
from .common import Verdict, rng_for
from .session import Session, Crash

TMO = int(os.environ.get("C09_TIMEOUT", "180"))
MON = {'thr': True, 'dr': False, 'text': True}


def shapes(tier):
    if tier == 'quick':
        return [
            dict(n=2, waves=1, k=40), dict(n=4, waves=2, k=25), dict(n=8, waves=1, k=20), dict(n=8, waves=3, k=8),
            dict(n=16, waves=2, k=6), dict(n=64, waves=1, k=3), dict(n=4, waves=4, k=12), dict(n=3, waves=1, k=60),
        ]
    out = []
    for n, w, k in [(2, 1, 200), (2, 4, 50), (4, 2, 60), (4, 6, 20), (8, 1, 50), (8, 4, 15), (16, 2, 20), (16, 4, 8),
                    (32, 2, 8), (64, 1, 10), (64, 2, 5), (3, 3, 40)]:
        out.append(dict(n=n, waves=w, k=k))
    return out


def run_case(spec):
    idx, shape, mode, cpus, delay, tc, opt, stepmix, tier = spec
    v = Verdict('C09', tier, '')
    try:
        P = mtlib.program(idx, tc=tc, opt=opt, **shape)
        native = P.native
    except Exception as e:
        v.inconc('prepare-failed', str(e)[-300:])
        return v.export()
    rng = rng_for(common.seed(), 'c09', idx, sorted(shape.items()), mode, cpus, delay, stepmix)
    env = {'BS_VERIF_DELAY_SEED': str(delay), 'BS_VERIF_DELAY_MAX_US': '1500'} if delay else None
    vout = v
    if stepmix:
        # step commands among running threads expose a family of known defects whose secondary effects cascade
        # (leaked temporary breakpoints -> threads trapping on them -> lost stops -> hangs); the run is judged up to its
        # first anomaly only, and that anomaly is reported under one signature per class
        v = Verdict('C09', tier, '')
    S = Session(P.b, v, extra_env=env, mon=MON, cpus=cpus, timeout=60 if stepmix else TMO)
    T, K = P.T, P.K
    stops = {}             # (t, which) -> reported arrivals
    order = hashlib.sha1()
    nstops = 0
    contended = 0
    ctx = {'binary': P.b.path, 'shape': shape, 'mode': mode, 'cpus': sorted(cpus) if cpus else None, 'delay': delay,
           'stepmix': stepmix}
    try:
        S.launch()
        addr = {}
        if mode in ('line', 'both'):
            r = S.cmd('break_line', file=P.src, line=P.side['site_line'])
            vs = r.get('ok') or []
            if len(vs) != 1:
                v.inconc('site-breakpoint-not-single', str(r)[:300])
                return v.export()
            addr['site'] = vs[0]['addr']['addr'] + (P.b.base if vs[0]['addr']['kind'] == 'global' else 0)
        if mode == 'fn':
            r = S.cmd('break_fn', name='site')
            vs = r.get('ok') or []
            if len(vs) != 1:
                v.inconc('site-breakpoint-not-single', str(r)[:300])
                return v.export()
            addr['site'] = vs[0]['addr']['addr'] + (P.b.base if vs[0]['addr']['kind'] == 'global' else 0)
        if mode in ('asm', 'both'):
            a = P.asm_addr()
            r = S.cmd('break_addr', addr=a)
            if 'ok' not in r:
                v.inconc('asm-breakpoint-failed', str(r)[:300])
                return v.export()
            addr['asm'] = a
        by_addr = {a: w for w, a in addr.items()}
        r = S.cmd('start', timeout=TMO)
        swallowed_possible = False
        resynced = False
        exposed = {}
        while True:
            okv = r.get('ok')
            evs = r.get('ev', [])
            if okv is None:
                v.violation('c09:resume-error', 'continue/step failed with an error while threads were racing to breakpoints',
                            dict(ctx, err=r.get('err'), history=S.history[-12:]))
                break
            reported = []
            if isinstance(okv, dict):
                if okv.get('stop') == 'exit':
                    break
                if okv.get('stop') == 'breakpoint':
                    reported.append((okv['tid'], okv['pc']))
                elif okv.get('stop') in ('signal', 'watchpoint', 'nosuchprocess'):
                    v.violation(f'c09:unexpected-stop:{okv.get("stop")}', 'a stop that is neither a breakpoint arrival nor the exit was reported',
                                dict(ctx, stop=okv, history=S.history[-12:]))
                    break
            else:
                # a step command: arrivals are announced by `breakpoint` events of the focused thread
                m = r.get('mon') or {}
                ftid = (m.get('ecx') or {}).get('tid')
                for e in evs:
                    if e.get('ev') == 'breakpoint':
                        reported.append((ftid, e['pc']))
                    if e.get('ev') == 'exit':
                        S.exited = True
                if S.exited:
                    break
            if stepmix and v.violations:
                break
            s2 = S.w.cmd('sample2', addr=P.ctr, n=8 * 5 * T, sleep_us=2000)['ok']
            v.count('allstop_double_samples')
            a, b = s2['a'], s2['b']
            moving = [t for t in a['tasks'] + b['tasks'] if t[1] not in ('t', 'Z', 'X', 'E')]
            if moving:
                v.violation('c09:task-not-stopped-at-reported-stop', 'a thread is not in tracing stop while the debugger reports a stop',
                            dict(ctx, tasks_first=a['tasks'], tasks_second=b['tasks'], history=S.history[-8:]))
                break
            if a['mem'] != b['mem'] or a['mem'] is None:
                v.violation('c09:counters-move-while-stopped', 'debuggee counters change while the debugger reports the program stopped',
                            dict(ctx, history=S.history[-8:]))
                break
            C = P.counters(bytes.fromhex(a['mem']))
            tid2t = {tid: t for t, tid in enumerate(C['TIDS']) if tid}
            bad = False
            for tid, pc in reported:
                which = by_addr.get(pc)
                if which is None:
                    v.violation('c09:stop-at-unknown-address', 'breakpoint stop reported at an address where no breakpoint was set',
                                dict(ctx, pc=pc, addrs=addr, history=S.history[-8:]))
                    bad = True
                    break
                t = tid2t.get(tid)
                if t is None:
                    v.violation('c09:stop-names-unknown-thread', 'stop reported for a thread id that is not a worker thread of the program',
                                dict(ctx, tid=tid, tids=C['TIDS'], history=S.history[-8:]))
                    bad = True
                    break
                stops[(t, which)] = stops.get((t, which), 0) + 1
                n = stops[(t, which)]
                nstops += 1
                order.update(bytes([t & 0xff]))
                exec_ctr = C['SITE_EXEC'][t] if which == 'site' else C['ASM_EXEC'][t]
                exp_before = n
                if C['BEFORE'][t] != exp_before or exec_ctr != n - 1 or C['AFTER'][t] != n - 1:
                    kind = 'duplicate-or-early' if C['BEFORE'][t] < exp_before else 'missed-arrival'
                    missed_in_step = (kind == 'missed-arrival' and exposed.get((t, which)) and exec_ctr == C['BEFORE'][t] - 1
                                      and C['AFTER'][t] == C['BEFORE'][t] - 1)
                    if missed_in_step:
                        # arrivals of t were swallowed while a step command was in progress
                        who = 'non-focus-thread' if exposed[(t, which)] == {'nonfocus'} else 'stepping-thread'
                        v.violation(f'c09:arrival-swallowed-during-step-command:{who}',
                                    'a thread came to a user breakpoint while a step command was in progress and the arrival was never reported',
                                    dict(ctx, thread=t, which=which, reported_arrivals=n, BEFORE=C['BEFORE'][t], EXEC=exec_ctr,
                                         AFTER=C['AFTER'][t], history=[h.get('cmd') for h in S.history[-10:]]))
                        stops[(t, which)] = C['BEFORE'][t]
                        resynced = True
                        exposed[(t, which)] = set()
                        continue
                    v.violation(f'c09:arrival-count:{kind}',
                                'the reported arrival number of a thread differs from the number of times the thread really came to the '
                                'breakpoint (its own counters)',
                                dict(ctx, thread=t, which=which, reported_arrivals=n, BEFORE=C['BEFORE'][t], EXEC=exec_ctr,
                                     AFTER=C['AFTER'][t], history=S.history[-8:]))
                    bad = True
                    break
                exposed[(t, which)] = set()
                v.count('stops_checked')
            if bad:
                break
            # contention: siblings whose pc is at (or just past) a breakpoint byte
            pcs = [p for p in a['pcs'] if p is not None]
            at_bp = sum(1 for p in pcs if p in by_addr or (p - 1) in by_addr)
            if at_bp > 1:
                contended += 1
                v.count('stops_with_sibling_at_breakpoint')
            if len(a['tasks']) != len(set(map(tuple, a['tasks']))):
                pass
            v.count('threads_seen_max', 0)
            # occasionally look at the backtrace of the reporting thread: site <- worker <- t_b <- t_a
            if reported and rng.random() < 0.1:
                rb = S.cmd('backtrace', mon=False)
                fr = [f.get('func') or '' for f in (rb.get('ok') or [])]
                chain = [x for x in ('site', 'worker', 't_b', 't_a') if not (x == 'site' and by_addr.get(reported[-1][1]) != 'site')]
                pos = 0
                for f in fr:
                    if pos < len(chain) and (f.endswith('::' + chain[pos]) or f == chain[pos]):
                        pos += 1
                v.count('mt_backtraces_checked')
                if pos != len(chain):
                    v.violation('c05:mt-thread-chain-missing', 'backtrace of a worker thread lacks its real call chain',
                                dict(ctx, frames=fr[:12], expected=chain), prop='C05')
            if stepmix and rng.random() < 0.25 and reported:
                op = rng.choice(['next', 'step', 'stepi', 'finish'])
                swallowed_possible = swallowed_possible or op in ('next', 'step', 'finish')
                v.count('step_commands_in_mt')
                ft = tid2t.get(reported[-1][0])
                if op != 'stepi':
                    for u in range(T):
                        for w in addr:
                            exposed.setdefault((u, w), set()).add('focus' if u == ft else 'nonfocus')
                r = S.cmd(op, timeout=60)
                if 'ok' not in r:
                    v.count('step_error:' + op + ':' + str(r.get('err'))[:80])
                    r = S.cmd("cont", timeout=60)
            else:
                r = S.cmd("cont", timeout=60 if stepmix else TMO)
        # ---------------- exit accounting
        if S.exited and not v.violations and not (stepmix and resynced):
            code = (r.get('ok') or {}).get('code') if isinstance(r.get('ok'), dict) else None
            if code is None:
                for e in r.get('ev', []):
                    if e.get('ev') == 'exit':
                        code = e['code']
            out, err = S.output(expect_stdout=native[0])
            short = {k2: n for k2, n in ((key, stops.get(key, 0)) for key in [(t, w) for t in range(T) for w in addr]) if n != K}
            if short and not resynced:
                v.violation('c09:arrival-swallowed-during-step-command:seen-at-exit' if swallowed_possible else 'c09:arrivals-not-reported-exactly-once', 'at exit some thread was reported a number of times different from the number of its arrivals',
                            dict(ctx, K=K, wrong={f'{t}:{w}': n for (t, w), n in list(short.items())[:10]}))
            if out != native[0] or code != native[2]:
                v.violation('c09:output-differs-from-native', 'program output or exit status differs from a native run (instruction skipped or doubled)',
                            dict(ctx, got=out[-400:].decode('latin1'), expected=native[0][-400:].decode('latin1'), code=code, native_code=native[2]))
            v.count('runs_completed')
        v.count('stops', nstops)
        v.count('stop_orders_hashed')
        v.case(signature=('order', order.hexdigest()[:16]),
               sample=dict(ctx, stops=nstops, contended_stops=contended, order_hash=order.hexdigest()[:12]))
    except Crash as c:
        loc = (c.info or {}).get('panic', {}).get('loc') if c.kind == 'panic' else (c.info or {}).get('cmd')
        if c.kind == 'hang' and stepmix:
            v.violation('hang', 'debugger hangs', dict(ctx, info=c.info, history=[h.get('cmd') for h in S.history[-12:]]))
        elif c.kind == 'hang':
            v.inconc('watchdog', dict(ctx, info=c.info))
        else:
            v.violation(f'c09:debugger-{c.kind}:{loc}', f'debugger {c.kind} while threads were racing to breakpoints',
                        dict(ctx, info=c.info, history=S.history[-10:]))
    finally:
        S.close()
    if stepmix:
        vout.evaluations += v.evaluations
        vout.distinct |= v.distinct
        vout.samples += v.samples
        for k2, n in v.counters.items():
            vout.counters[k2] = vout.counters.get(k2, 0) + n
        vout.inconclusive += v.inconclusive
        if v.violations:
            sig, what, detail, vprop = v.violations[0]
            cls = ('arrival-swallowed' if 'swallowed' in sig else 'hang' if sig == 'hang' else 'resume-error' if 'resume-error' in sig
                   else 'stray-patch' if sig.startswith('text:') else 'thread-list' if sig.startswith('allstop:') else
                   'debugger-died' if 'debugger-' in sig else 'other:' + sig)
            vout.violation(f'c09:step-command-among-running-threads:{cls}',
                           'with several threads running, a step command (next/step/finish) breaks the session: ' + what,
                           dict(detail or {}, original_signature=sig))
            vout.count('stepmix_runs_ended_by_known_class')
        return vout.export()
    return v.export()


def _prep(p):
    idx, shape, tc, opt = p
    try:
        mtlib.program(idx, tc=tc, opt=opt, **dict(shape)).native
    except Exception as e:
        return str(e)


def main(tier):
    rule = ('case = one debugging run of a generated N-thread x W-wave x K-arrival program with a line/function/instruction breakpoint '
            'reachable by all threads, under a CPU pinning (1, 2, all) and a tracer delay seed; every reported stop is checked against the '
            'kernel task states (twice) and the program\'s own per-thread counters; distinct = distinct stop-order sequences (hash of the '
            'thread order of all reported arrivals)')
    V = Verdict('C09', tier, rule)
    V.minima = {'stops_checked': 800, 'allstop_double_samples': 800, 'runs_completed': 8} if tier == 'quick' else \
        {'stops_checked': 6000, 'allstop_double_samples': 6000, 'runs_completed': 40}
    V.assumptions = ['the debuggee\'s own SeqCst counters are the ground truth for arrivals; /proc task states are the ground truth for stopped',
                     'a watchdog expiry is inconclusive']
    all_cpus = None
    specs = []
    sh = shapes(tier)
    modes = ['line', 'asm', 'both', 'fn']
    reps = 2 if tier == 'quick' else 6
    i = 0
    for si, shape in enumerate(sh):
        for rep in range(reps):
            mode = modes[(si + rep) % 4]
            cpus = [all_cpus, {0}, {0, 1}, all_cpus][(si + 2 * rep) % 4] if tier == 'quick' else \
                [all_cpus, {rep % 16}, {rep % 16, (rep + 5) % 16}, all_cpus, {1, 2, 3, 4}][(si + rep) % 5]
            delay = 0 if (rep + si) % 3 == 0 else 1000 * common.seed() + 17 * i + 1
            tc = '1.89' if (si + rep) % 2 == 0 else '1.95'
            specs.append((si, shape, mode, cpus, delay, tc, 0, False, tier))
            i += 1
    # step commands mixed in (temporary breakpoints while siblings hit user breakpoints)
    for si, shape in enumerate(sh[:4] if tier == 'quick' else sh[:8]):
        for rep in range(1 if tier == 'quick' else 3):
            specs.append((si, shape, ['line', 'both'][rep % 2], None, 0 if rep % 2 == 0 else 7 + rep, '1.89', 0, True, tier))
    progs = sorted({(s[0], tuple(sorted(s[1].items())), s[5], s[6]) for s in specs}, key=str)
    common.parallel_map(_prep, progs)
    for res in common.safe_map(run_case, specs, procs=8):
        V.merge(res)
    return V.finish()
