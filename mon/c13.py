"""C13: DAP breakpoint requests replace, and their options are honoured whenever set.

A deterministic program whose breakpoint-relevant events per loop iteration are known (entry instruction and
first body line of fa/fb, a later body line, a generic function with three instantiations, an inlined helper) is
driven through the real `bs` adapter. Histories interleave setBreakpoints / setFunctionBreakpoints /
setInstructionBreakpoints requests (with conditions, hit conditions and log messages) with configurationDone,
continue and restart; requests are made before the program starts, at stops and after a restart. A model replays
the program's event sequence against the *latest* set of each kind: the next `stopped` event (identified by the
top stack frame's line / instruction pointer) must be the first event whose location is in the latest sets and
whose options let it stop; log points must produce exactly their outputs and never stop; `verified` must be true
exactly for locations that have code.
"""
import os
import re
import sys

sys.path.insert(0, os.path.dirname(os.path.dirname(os.path.abspath(__file__))))
from gen import bpset  # noqa: E402
from . import common, corpus  # noqa: E402
from .common import Verdict, rng_for  # noqa: E402
from .dap import Dap, DapDead  # noqa: E402


def hit_matches(hc, hits):
    if hc is None:
        return True
    m = re.match(r'^(>=|<=|==|=|>|<)?\s*(\d+)$', hc.strip())
    if not m:
        return True   # invalid: reported, does not filter
    op, n = m.group(1) or '==', int(m.group(2))
    return {'>=': hits >= n, '<=': hits <= n, '==': hits == n, '=': hits == n, '>': hits > n, '<': hits < n}[op]


class Model:
    def __init__(self, side):
        self.order = side['order']
        self.iters = side['iters']
        # flattened event sequence of one run: (key, iteration); the prefix events happen before the loop (iteration -1)
        self.events = [(k, -1) for k in side.get('prefix', [])] + [(k, it) for it in range(self.iters) for k in self.order]
        self.pos = 0              # index into the event sequence
        self.search_from = 0
        self.sets = {'L': {}, 'F': {}, 'I': {}}   # kind -> key -> record dict(cond, hit, log, hits)
        self.expected_logs = []
        self.removed = {}         # key -> when the record that was replaced away had been created

    def set_kind(self, kind, recs, when='?'):
        for k, r in self.sets[kind].items():
            if k not in recs:
                self.removed[k] = r.get('when', '?')
        self.sets[kind] = {k: dict(r, hits=0, when=when) for k, r in recs.items()}

    def restart(self):
        self.pos = 0

    def position_of(self, key, it):
        """index of the first occurrence of (location, iteration) at or after the point where the last search started"""
        for p in range(self.search_from, len(self.events)):
            k, i = self.events[p]
            if k == key and max(i, 0) == it:
                return p
        return None

    def next_stop(self):
        """advance to the next event at which the program must stop; returns (key, iteration) or None (runs to exit)"""
        self.search_from = self.pos
        while self.pos < len(self.events):
            key, it = self.events[self.pos]
            self.pos += 1
            rec = self.sets[key[0]].get(key)
            if rec is None:
                continue
            rec['hits'] += 1
            flag = (it >= 0 and it % 2 == 0)       # ZQ_FLAG is false before the loop
            cond = rec.get('cond')
            if cond is not None:
                val = {'ZQ_FLAG': flag, 'true': True, 'false': False, '1': True, '0': False}[cond]
                if not val:
                    continue
            if not hit_matches(rec.get('hit'), rec['hits']):
                continue
            if rec.get('log') is not None:
                self.expected_logs.append(rec['log'].replace('{ZQ_ITER}', str(max(it, 0))))
                continue
            return key, it
        return None


def run_case(spec):
    idx, tier = spec
    v = Verdict('C13', tier, '')
    rng = rng_for(common.seed(), 'c13', idx)
    src, side = bpset.gen(common.seed(), iters=rng.choice([4, 6]))
    b = corpus.compile_rust(f'bpset{side["iters"]}', src, corpus.Config(tc='1.89' if idx % 2 else '1.95'), side)
    syms = b.symbols()
    entry = {}
    for name in ('fa', 'fb'):
        for s_, a in syms.items():
            if re.search(r'\d+' + name + r'17h', s_):
                entry['I_' + name] = a + b.base
    iter_addr = next((a for s_, a in syms.items() if s_ == 'ZQ_ITER'), None)
    if iter_addr is None:
        v.inconc('no-iteration-symbol')
        return v.export()
    iter_addr += b.base
    lines = side['lines']
    line2key = {lines['F0_fa'] - 1: 'I_fa', lines['F0_fb'] - 1: 'I_fb', lines['F0_fa']: 'F_fa', lines['F0_fb']: 'F_fb', lines['F0_gen']: 'F_gen', lines['L_fa']: 'L_fa', lines['L_fb']: 'L_fb',
                lines['L_gen']: 'L_gen', lines['L_inl']: 'L_inl', lines['L_sv']: 'L_sv'}
    ctx = {'binary': b.path}
    try:
        d = Dap()
    except DapDead:
        v.inconc('adapter-did-not-start')
        return v.export()
    M = Model(side)
    # clean scenarios: the only request made before the program runs is a plain breakpoint on a line that is executed once
    # before the loop and stays in every later set; every record that decides a stop is then created while the program runs
    clean = rng.random() < 0.4
    ctx['start'] = 'clean' if clean else 'free'
    hist = []
    timing_classes = set()

    def opts(allow_cond=True):
        o = {}
        k = rng.random()
        if k < 0.25 and allow_cond:
            o['cond'] = rng.choice(['ZQ_FLAG', 'ZQ_FLAG', 'true', 'false'])
        elif k < 0.45:
            o['hit'] = rng.choice(['2', '>=3', '>1', '<3', '<=2', '==1', '1'])
        elif k < 0.6:
            o['log'] = f'zqlog{rng.randint(0, 99)} {{ZQ_ITER}}'
        return o

    def send_sets(when):
        """send a random subset of set-requests; every request replaces the previous set of its kind"""
        timing_classes.add(when)
        kinds = rng.sample(['L', 'F', 'I'], k=rng.randint(1, 3))
        if clean and when == 'before-start':
            kinds = ['L']
        for kind in kinds:
            if kind == 'L':
                keys = rng.sample(['L_fa', 'L_fb', 'L_gen', 'L_inl'], k=rng.randint(0, 3))
                if clean and when == 'before-start':
                    keys = []
                recs = {k: opts() for k in keys}
                if clean:
                    # the line that gives the first stop is part of every set of this file (plain, so that the record made
                    # before the program runs never decides anything)
                    keys = keys + ['L_sv']
                    recs['L_sv'] = {}
                bps = []
                for k in keys:
                    o = recs[k]
                    bp = {'line': lines[k]}
                    if 'cond' in o:
                        bp['condition'] = o['cond']
                    if 'hit' in o:
                        bp['hitCondition'] = o['hit']
                    if 'log' in o:
                        bp['logMessage'] = o['log']
                    bps.append(bp)
                extra = []
                if rng.random() < 0.3:
                    extra = [{'line': rng.choice([lines['nocode'], 9999])}]
                r = d.request('setBreakpoints', {'source': {'path': b.src}, 'breakpoints': bps + extra})
                hist.append(('setBreakpoints', when, keys, [recs[k] for k in keys]))
                M.set_kind('L', recs, when)
                v.count('set_requests')
                got = ((r or {}).get('body') or {}).get('breakpoints') or []
                if r is None or not r.get('success'):
                    v.violation('c13:set-request-failed', 'a well-formed breakpoint request failed', dict(ctx, when=when, reply=r, history=hist[-4:]))
                    continue
                flags = [x.get('verified') for x in got]
                want = [True] * len(bps) + [False] * len(extra)
                v.count('verified_flags_checked', len(want))
                if flags != want:
                    v.violation(f'c13:verified-flag-wrong:{when}', '`verified` is not true exactly for the locations that were installed',
                                dict(ctx, when=when, lines=[x['line'] for x in bps + extra], verified=flags, expected=want))
            elif kind == 'F':
                keys = rng.sample(['F_fa', 'F_fb', 'F_gen'], k=rng.randint(0, 2))
                recs = {k: opts() for k in keys}
                bps = []
                for k in keys:
                    o = recs[k]
                    bp = {'name': k[2:]}
                    if 'cond' in o:
                        bp['condition'] = o['cond']
                    if 'hit' in o:
                        bp['hitCondition'] = o['hit']
                    if 'log' in o:
                        # function breakpoints have no logMessage in the protocol: treat as plain
                        o.pop('log')
                    bps.append(bp)
                extra = [{'name': 'zq_no_such_function'}] if rng.random() < 0.3 else []
                r = d.request('setFunctionBreakpoints', {'breakpoints': bps + extra})
                hist.append(('setFunctionBreakpoints', when, keys, [recs[k] for k in keys]))
                M.set_kind('F', recs, when)
                v.count('set_requests')
                got = ((r or {}).get('body') or {}).get('breakpoints') or []
                flags = [x.get('verified') for x in got]
                want = [True] * len(bps) + [False] * len(extra)
                v.count('verified_flags_checked', len(want))
                if r is not None and r.get('success') and flags != want:
                    v.violation(f'c13:verified-flag-wrong:{when}', '`verified` is not true exactly for the locations that were installed',
                                dict(ctx, when=when, names=[x['name'] for x in bps + extra], verified=flags, expected=want))
            else:
                if when == 'before-start':
                    continue      # instruction references are run-time addresses
                keys = rng.sample(['I_fa', 'I_fb'], k=rng.randint(0, 2))
                recs = {k: opts(allow_cond=False) for k in keys}
                bps = []
                for k in keys:
                    o = recs[k]
                    o.pop('log', None)
                    bp = {'instructionReference': hex(entry[k])}
                    if 'hit' in o:
                        bp['hitCondition'] = o['hit']
                    bps.append(bp)
                r = d.request('setInstructionBreakpoints', {'breakpoints': bps})
                hist.append(('setInstructionBreakpoints', when, keys, [recs[k] for k in keys]))
                M.set_kind('I', recs, when)
                v.count('set_requests')

    def observe():
        """(kind, key) of what happened after a resume: ('stop', key) / ('exit', None) / ('entry', None) / ('unknown', info)"""
        ev = d.wait_event(('stopped', 'terminated'), timeout=40, start=observe.start)
        if ev is None:
            return 'timeout', None
        observe.start = d.log.index(ev) + 1
        if ev.get('event') == 'terminated':
            return 'exit', None
        body = ev.get('body') or {}
        # (after `restart` the adapter labels the first stop of the re-created process "entry" although the program already ran
        #  to its first breakpoint: it is identified by its location like any other stop)
        st = d.request('stackTrace', {'threadId': body.get('threadId'), 'startFrame': 0, 'levels': 1})
        fr = (((st or {}).get('body') or {}).get('stackFrames') or [{}])[0]
        ip = fr.get('instructionPointerReference')
        observe.frame = fr
        try:
            ipv = int(ip, 16) if ip else None
        except ValueError:
            ipv = None
        observe.iter = read_iter(body.get('threadId'))
        for k, a in entry.items():
            if ipv == a:
                return 'stop', k
        key = line2key.get(fr.get('line'))
        if key:
            return 'stop', key
        return 'unknown', {'frame': fr, 'body': body}
    observe.start = 0
    observe.iter = None

    def read_iter(tid):
        """the program's own iteration counter, read from /proc/<pid>/mem (the program is single-threaded: thread id = pid)"""
        try:
            with open(f'/proc/{int(tid)}/mem', 'rb', buffering=0) as f:
                f.seek(iter_addr)
                return int.from_bytes(f.read(8), 'little')
        except (OSError, TypeError, ValueError):
            return None

    try:
        d.request('initialize', {'adapterID': 'bugstalker'})
        r = d.request('launch', {'program': b.path, 'cwd': b.dir})
        if r is None or not r.get('success'):
            v.inconc('launch-failed', str(r)[:200])
            return v.export()
        if clean or rng.random() < 0.7:
            send_sets('before-start')
        observe.start = len(d.log)
        d.request('configurationDone')
        restarts = 0
        steps = 0
        while steps < 80:
            steps += 1
            what, key = observe()
            if what == 'entry':
                if rng.random() < 0.6:
                    send_sets('at-entry' if restarts == 0 else 'after-restart')
                observe.start = len(d.log)
                d.request('continue', {'threadId': 1})
                continue
            exp = M.next_stop()
            v.count('stops_compared')
            if os.environ.get('VERIF_C13_TRACE') and what == 'stop':
                ev_ = d.request('evaluate', {'expression': 'i', 'frameId': getattr(observe, 'frame', {}).get('id'), 'context': 'watch'})
                print('TRACE', idx, 'observed', key, 'expected', exp, 'i=', ((ev_ or {}).get('body') or {}).get('result'), flush=True)
            if what == 'timeout':
                v.inconc('no-event-after-resume', dict(ctx, history=hist[-4:]))
                break
            if what == 'unknown':
                v.violation('c13:stop-at-unknown-location', 'the program stopped at a location that is not one of the generated breakpoint locations',
                            dict(ctx, info=key, history=hist[-4:]))
                break
            obs = None if what == 'exit' else key
            expk = exp[0] if exp else None
            # which occurrence of the location: the program's own iteration counter (0 before the loop)
            obs_it = observe.iter if obs is not None else None
            exp_it = max(exp[1], 0) if exp else None
            if obs is not None and obs_it is None:
                v.inconc('iteration-counter-unreadable', dict(ctx, history=hist[-4:]))
                break
            v.count('stops_identified_by_location_and_iteration')
            if (obs, obs_it) != (expk, exp_it):
                active = {k for kind in M.sets.values() for k in kind}
                rec = None
                for kind in M.sets.values():
                    if obs in kind:
                        rec = kind[obs]
                if obs is not None and obs not in active:
                    cls = 'stop-at-location-not-in-latest-sets'
                elif obs is None:
                    cls = 'expected-stop-missing'
                else:
                    # the observed location is in the latest sets: did the program stop before the stop the model expects
                    # (at an occurrence whose options say "do not stop") or did it run past the expected stop?
                    p_obs = M.position_of(obs, obs_it)
                    if p_obs is not None and p_obs < M.pos - 1 or exp is None:
                        cls = 'option-not-honoured'
                    else:
                        cls = 'expected-stop-missing'
                        rec = None
                if os.environ.get('VERIF_C13_TRACE'):
                    for m in d.sent[-14:]:
                        print('TRACE-SENT', idx, str(m)[:400], flush=True)
                    for m in d.log[-40:]:
                        if m.get('type') != 'response' or m.get('command') not in ('stackTrace', 'evaluate'):
                            print('TRACE-LOG', idx, str(m)[:300], flush=True)
                culprit = obs if obs is not None else expk
                multi = 'multi-location' if culprit and culprit.endswith('_gen') else 'single-location'
                if cls == 'stop-at-location-not-in-latest-sets':
                    born = M.removed.get(obs, 'never-set')
                else:
                    born = (rec or {}).get('when') or next((kind[expk].get('when') for kind in M.sets.values() if expk in kind), '?')
                born = 'created-before-start' if born == 'before-start' else ('never-set' if born == 'never-set' else 'created-while-running')
                v.violation(f'c13:{cls}:{multi}:{born}',
                            'the program does not stop at exactly the locations of the latest breakpoint sets with their options',
                            dict(ctx, observed=obs, observed_iteration=obs_it, expected=expk, iteration=exp[1] if exp else None, sets={k: dict(x) for k, x in M.sets.items()},
                                 history=hist[-5:], full_history=hist, case_index=idx))
                break
            if what == 'exit':
                break
            # at a stop: maybe change the sets, maybe restart, then resume
            k = rng.random()
            if k < 0.35:
                send_sets('at-stop' if restarts == 0 else 'after-restart')
            elif k < 0.42 and restarts < 2 and not any(r_.get('hit') for kind in M.sets.values() for r_ in kind.values()):
                restarts += 1
                hist.append(('restart', None, None, None))
                observe.start = len(d.log)
                d.request('restart', {})
                M.restart()
                v.count('restarts')
                continue
            observe.start = len(d.log)
            d.request('continue', {'threadId': 1})
        # log point outputs
        d.quiesce(0.3, 2.0)
        if os.environ.get('VERIF_C13_TRACE'):
            for m in d.log:
                if m.get('type') == 'event' and m.get('event') == 'output' and (m.get('body') or {}).get('category') == 'console':
                    print('TRACE-OUT', idx, repr((m.get('body') or {}).get('output'))[:300], flush=True)
        outs = [((m.get('body') or {}).get('output') or '').strip() for m in d.log if m.get('type') == 'event' and m.get('event') == 'output'
                and 'zqlog' in ((m.get('body') or {}).get('output') or '')]
        v.count('logpoint_outputs_expected', len(M.expected_logs))
        if not v.violations and [o for o in outs] != M.expected_logs:
            v.violation('c13:logpoint-outputs-differ', 'log points did not produce exactly the expected outputs',
                        dict(ctx, got=outs[:10], expected=M.expected_logs[:10], history=hist[-5:], full_history=hist, case_index=idx))
        d.session_over_at = d.seq + 1
        d.request('disconnect', {'terminateDebuggee': True}, timeout=10)
        v.count('scenarios')
        for t in timing_classes:
            v.count('timing_' + t)
        v.case(signature=('c13', tuple(sorted(timing_classes)), tuple(h[0] for h in hist[:6])), sample=dict(ctx, history=[(h[0], h[1], h[2]) for h in hist[:8]]))
    finally:
        rc, err = d.close()
        if b'panicked' in (err or b''):
            t = err.decode('latin1')
            i = t.find('panicked at')
            v.violation('crash:panic:' + t[i:i + 80].split('\n')[0], 'the adapter process panicked', dict(ctx, stderr=t[i:i + 400]), prop='C08')
    return v.export()


def main(tier):
    rule = ('case = one adapter session with a seeded history of setBreakpoints / setFunctionBreakpoints / setInstructionBreakpoints requests '
            '(conditions, hit conditions, log messages) made before start, at the entry stop, at stops and after restart; every `stopped` event is '
            'compared with the next stop of a model that replays the program\'s known event sequence against the latest sets; '
            'distinct = distinct (timing classes used, request kinds)')
    V = Verdict('C13', tier, rule)
    V.minima = {'scenarios': 15, 'stops_compared': 80, 'set_requests': 40, 'timing_before-start': 3, 'timing_at-stop': 3} if tier == 'quick' else \
        {'scenarios': 600, 'stops_compared': 6000, 'set_requests': 2500, 'timing_before-start': 100, 'timing_at-stop': 100, 'timing_after-restart': 10}
    V.assumptions = ['the program is deterministic and its per-iteration event order is fixed by the generator',
                     'data breakpoints are judged at the API (C14): their register state is not observable from outside the adapter']
    n = 120 if tier == 'quick' else 1000
    specs = [(i, tier) for i in range(n)]
    for res in common.safe_map(run_case, specs, procs=6):
        V.merge(res)
    return V.finish()
