"""C19: only what is in scope is shown, and it belongs to the selected frame.

Generated programs with nested blocks, shadowing, sibling blocks, variables declared after a marker and a
recursive function. The program stops in `marker(id)`; the monitor selects the caller's frame and compares
`var locals` / `arg all` / `var <name>` with the generator's static scope model of that marker:
  * every binding in scope is listed with its value, nothing declared later or in a sibling block is listed,
    the number of entries of a shadowed name equals the number of live bindings of that name;
  * `var <name>` resolves to the innermost live binding;
  * in the recursion every frame shows its own activation's depth / acc / local (frame k of the backtrace);
  * at opt-level 1 a variable that is shown with a value must show the right value.
"""
import os
import sys

sys.path.insert(0, os.path.dirname(os.path.dirname(os.path.abspath(__file__))))
from gen import scope  # noqa: E402
from . import common, corpus  # noqa: E402
from .common import Verdict, rng_for  # noqa: E402
from .session import Session, Crash  # noqa: E402

TMO = 60


def scalar_of(entry):
    """(name, int value or None) of a lowered query result"""
    val = entry.get('value') or {}
    if val.get('k') != 'scalar' or not val.get('v'):
        return entry.get('name'), None
    sv = val['v']
    try:
        return entry.get('name'), int(sv.get('v'))
    except (TypeError, ValueError):
        return entry.get('name'), None


def judge_scope(S, v, m, mid, ctx, opt):
    """listing and by-name reads of the frame in focus against the ground-truth record of one marker"""
    loc = S.cmd('locals')
    ar = S.cmd('arg')
    listed = [scalar_of(e) for e in (loc.get('ok') or [])] + [scalar_of(e) for e in (ar.get('ok') or [])]
    v.count('marker_stops')
    exp_bindings = [(n, val) for n, val in m['all_bindings']]
    names_listed = [n for n, _ in listed]
    mctx = dict(ctx, marker=mid, fn=m['fn'], line=m['line'], listed=listed, expected=exp_bindings)
    for n in (m['must_not_list'] if opt == 0 else []):   # optimized code: lexical blocks of the DWARF need not follow the source
        if n in names_listed:
            v.violation('c19:lists-variable-declared-later-or-in-sibling-block',
                        'a variable that is not in lexical scope at the current location is listed', dict(mctx, name=n))
    for n in sorted({n for n, _ in exp_bindings}):
        want = sorted(val for nn, val in exp_bindings if nn == n)
        got = sorted((val for nn, val in listed if nn == n), key=lambda x: (x is None, x))
        if opt == 0:
            if len(got) > len(want):
                v.violation('c19:lists-later-shadowing-binding', 'more bindings of a name are listed than are live at this point',
                            dict(mctx, name=n, got=got, want=want))
            elif len(got) < len(want):
                v.violation('c19:in-scope-variable-not-listed', 'a variable that is in scope is not listed', dict(mctx, name=n, got=got, want=want))
            elif [g for g in got if g is not None] and sorted(g for g in got if g is not None) != [w for w in want][:len([g for g in got if g is not None])] and \
                    any(g not in want for g in got if g is not None):
                v.violation('c19:wrong-value-for-in-scope-variable', 'a listed variable shows a value that no live binding of that name holds',
                            dict(mctx, name=n, got=got, want=want))
        else:
            for g in got:
                if g is not None and g not in want:
                    v.violation('c19:opt:shown-value-wrong', 'optimized code: a variable is shown with a value it does not hold',
                                dict(mctx, name=n, got=got, want=want))
    # innermost binding by name
    for n in sorted(m['visible']):
        q = S.cmd('var', expr=n) if n != 'a' else S.cmd('arg', expr=n)
        res = [scalar_of(e) for e in (q.get('ok') or [])]
        vals = [val for _, val in res if val is not None]
        v.count('by_name_reads')
        if opt == 0 and not vals:
            v.violation('c19:in-scope-name-does-not-resolve', 'a name that is in scope does not resolve to a value', dict(mctx, name=n, reply=str(q)[:200]))
        elif vals and vals[0] != m['visible'][n]:
            shadowed = sum(1 for nn, _ in exp_bindings if nn == n) > 1
            v.violation('c19:name-resolves-to-outer-shadowed-binding' if shadowed and vals[0] in [val for nn, val in exp_bindings if nn == n]
                        else ('c19:opt:shown-value-wrong' if opt else 'c19:name-resolves-to-wrong-value'),
                        'a name resolves to a value other than its innermost live binding',
                        dict(mctx, name=n, got=vals[0], want=m['visible'][n]))


def run_case(spec):
    idx, cfgd, tier = spec
    v = Verdict('C19', tier, '')
    src, side = scope.gen(common.seed() * 100 + idx)
    b = corpus.compile_rust(f'scope{idx}', src, corpus.Config(**cfgd), side)
    opt = cfgd.get('opt', 0)
    ctx = {'binary': b.path, 'opt': opt}
    S = Session(b, v, mon=False, timeout=TMO)
    rec = side['rec']
    try:
        S.launch()
        r = S.cmd('break_fn', name='marker')
        if not r.get('ok'):
            v.inconc('marker-breakpoint-failed', str(r)[:200])
            return v.export()
        r = S.cmd('start', timeout=TMO)
        guard = 0
        while not S.exited and guard < 400:
            guard += 1
            if (r.get('ok') or {}).get('stop') != 'breakpoint':
                break
            a = S.cmd('arg', expr='id')
            name, mid = scalar_of((a.get('ok') or [{}])[0]) if a.get('ok') else (None, None)
            if mid is None:
                v.inconc('marker-id-not-readable', str(a)[:200])
                break
            m = side['markers'].get(str(mid))
            if m is not None:
                # ------------------------------------------------------------ static scope model of the caller
                fr = S.cmd('frame', num=1)
                judge_scope(S, v, m, mid, ctx, opt)
                S.cmd('frame', num=0)
                v.case(signature=('marker', m['fn'], len(m['all_bindings']), len(m['must_not_list']), opt), n=1)
            elif rec['first_marker'] <= mid <= rec['first_marker'] + rec['depth']:
                # ------------------------------------------------------------ recursion: every frame shows its own activation
                depth_now = mid - rec['first_marker']
                acts = rec['activations']           # outermost first: depth = rec.depth .. 0
                live = [a_ for a_ in acts if a_['depth'] >= depth_now]   # active activations, outermost first
                v.count('recursion_stops')
                for k, act in enumerate(reversed(live), start=1):       # frame 1 = innermost rec activation
                    S.cmd('frame', num=k)
                    loc = [scalar_of(e) for e in (S.cmd('locals').get('ok') or [])]
                    ar = [scalar_of(e) for e in (S.cmd('arg').get('ok') or [])]
                    got = dict(loc + ar)
                    v.count('frame_selected_reads')
                    for n in ('depth', 'acc', 'local'):
                        gv = got.get(n)
                        if gv is None:
                            if opt == 0:
                                v.violation('c19:frame-variable-not-shown', 'a variable of a selected recursion frame is not shown',
                                            dict(ctx, frame=k, name=n, got=got, activation=act))
                        elif gv != act[n]:
                            other = [a_ for a_ in acts if a_[n] == gv]
                            v.violation((f'c19:opt{opt}:frame-shows-another-activation' if other else f'c19:opt{opt}:frame-shows-wrong-value'),
                                        'a selected frame shows a value that is not the one of its own activation',
                                        dict(ctx, frame=k, name=n, got=gv, want=act[n], belongs_to_depth=(other[0]['depth'] if other else None)))
                    if tier == 'quick' and k >= 4:
                        break
                S.cmd('frame', num=0)
                if opt == 0 and len(live) >= 3:
                    # move by single instruction steps until marker has returned into rec: the stack got one frame shallower,
                    # so frame j now is the (j+1)-th frame of before - every frame must again show its own activation
                    returned = False
                    for _ in range(16):
                        S.cmd('stepi')
                        bt = S.cmd('backtrace').get('ok') or []
                        if bt and (bt[0].get('func') or '').endswith('rec'):
                            returned = True
                            break
                    if returned:
                        v.count('recursion_rechecks_after_stepi')
                        inner = list(reversed(live))
                        for j in range(1, min(4, len(inner))):
                            S.cmd('frame', num=j)
                            got = dict([scalar_of(e) for e in (S.cmd('locals').get('ok') or [])] + [scalar_of(e) for e in (S.cmd('arg').get('ok') or [])])
                            v.count('frame_selected_reads')
                            for n in ('depth', 'acc', 'local'):
                                gv = got.get(n)
                                if gv is not None and gv != inner[j][n]:
                                    other = [a_ for a_ in acts if a_[n] == gv]
                                    v.violation(('c19:opt0:frame-shows-another-activation:after-stepi' if other else 'c19:opt0:frame-shows-wrong-value:after-stepi'),
                                                'after instruction steps changed the stack depth a selected frame shows the values of another activation',
                                                dict(ctx, frame=j, name=n, got=gv, want=inner[j][n], belongs_to_depth=(other[0]['depth'] if other else None)))
                        S.cmd('frame', num=0)
                v.case(signature=('rec', depth_now, opt), n=1)
            r = S.cmd('cont', timeout=TMO)
        v.count('runs', 1)
    except Crash as c:
        loc = (c.info or {}).get('panic', {}).get('loc') if c.kind == 'panic' else (c.info or {}).get('cmd')
        if c.kind == 'hang':
            v.inconc('watchdog', dict(ctx, info=c.info))
        else:
            v.violation(f'crash:{c.kind}:{loc}', f'debugger {c.kind} on a variable query', dict(ctx, info=c.info), prop='C08')
    finally:
        S.close()
    return v.export()


def line_stop_case(spec):
    """the same scope records judged in frame 0, stopped on the marker statement itself: its first instruction is the first
    address after whatever block was closed just before it, and the last address before the `let`s that follow it"""
    idx, cfgd, tier = spec
    v = Verdict('C19', tier, '')
    src, side = scope.gen(common.seed() * 100 + idx)
    b = corpus.compile_rust(f'scope{idx}', src, corpus.Config(**cfgd), side)
    ctx = {'binary': b.path, 'opt': 0, 'leg': 'stopped-on-the-marker-statement'}
    S = Session(b, v, mon=False, timeout=TMO)
    by_line = {m['line']: (mid, m) for mid, m in side['markers'].items()}
    try:
        S.launch()
        srcname = os.path.basename(b.src)
        for line in sorted(by_line):
            S.cmd('break_line', file=srcname, line=line)
        r = S.cmd('start', timeout=TMO)
        guard = 0
        while not S.exited and guard < 300:
            guard += 1
            if (r.get('ok') or {}).get('stop') != 'breakpoint':
                break
            place = None
            for e in r.get('ev', []):
                if e.get('ev') == 'breakpoint':
                    place = e.get('place') or {}
            hit = by_line.get((place or {}).get('line'))
            if hit is not None:
                mid, m = hit
                v.count('statement_stops')
                judge_scope(S, v, m, mid, ctx, 0)
                v.case(signature=('marker-line', m['fn'], len(m['all_bindings']), len(m['must_not_list'])), n=1)
            r = S.cmd('cont', timeout=TMO)
    except Crash as c:
        loc = (c.info or {}).get('panic', {}).get('loc') if c.kind == 'panic' else (c.info or {}).get('cmd')
        if c.kind == 'hang':
            v.inconc('watchdog', dict(ctx, info=c.info))
        else:
            v.violation(f'crash:{c.kind}:{loc}', f'debugger {c.kind} on a variable query', dict(ctx, info=c.info), prop='C08')
    finally:
        S.close()
    return v.export()


def main(tier):
    rule = ('case = one marker stop of a generated program: the caller frame is selected and var locals / arg all / var <name> are compared '
            'with the generator\'s scope model (in-scope bindings with values, names declared later or in sibling blocks, innermost binding of '
            'shadowed names), or one recursion stop where every frame is selected and compared with its own activation; '
            'distinct = distinct (function, bindings in scope, hidden names, opt-level) and recursion depths')
    V = Verdict('C19', tier, rule)
    V.minima = {'marker_stops': 60, 'frame_selected_reads': 60, 'by_name_reads': 150} if tier == 'quick' else \
        {'marker_stops': 3000, 'frame_selected_reads': 3000, 'by_name_reads': 8000}
    V.assumptions = ['the generator evaluates the same wrapping u64 arithmetic as the program', 'at opt-level 1 only shown values are judged']
    cfgs = [dict(tc='1.89', opt=0), dict(tc='1.95', opt=0), dict(tc='1.89', opt=1), dict(tc='1.95', opt=1)]
    n = 6 if tier == 'quick' else 100
    specs = [(i, cfgs[i % 4], tier) for i in range(n)]
    for res in common.safe_map(run_case, specs, procs=8):
        V.merge(res)
    # frame 0 stopped on the marker statements themselves (unoptimized programs)
    V.minima['statement_stops'] = 40 if tier == 'quick' else 1500
    for res in common.safe_map(line_stop_case, [s_ for s_ in specs if s_[1].get('opt', 0) == 0], procs=8):
        V.merge(res)
    return V.finish()
