"""Preparation of vals-family programs: compile, native run, canonical truth parsed from the program's output."""
import json
import os
import sys

sys.path.insert(0, os.path.dirname(os.path.dirname(os.path.abspath(__file__))))

from gen import vals  # noqa: E402
from . import corpus, common  # noqa: E402


class PreparedVals:
    def __init__(self, binary):
        self.b = binary
        self.side = binary.side
        out, err, rc = corpus.native_run(binary)
        self.native = (out, err, rc)
        self.truth = {}
        for l in out.decode('utf-8', 'replace').splitlines():
            if l.startswith('CANON '):
                n, v = l[6:].split('=', 1)
                try:
                    self.truth[n] = json.loads(v)
                except ValueError:
                    pass
        self.types = {v['name']: v for v in self.side['vars']}

    def oracle_ok(self):
        if self.native[2] != 0:
            return False, f'native run failed rc={self.native[2]}'
        missing = [v['name'] for v in self.side['vars'] if v['name'] not in self.truth]
        if missing:
            return False, f'no canonical output for {missing[:5]}'
        return True, ''


def vals_program(idx, tc='1.89', opt=0, dwarf=4, pie=True, nvars=36):
    seed = common.seed() * 1000 + idx
    name = f'vals{idx}'
    src, side = vals.gen(seed, nvars=nvars)
    cfg = corpus.Config(tc=tc, opt=opt, dwarf=dwarf, pie=pie)
    return corpus.compile_rust(name, src, cfg, side)


_cache = {}


def prepare(idx, **kw):
    key = (common.seed(), idx, tuple(sorted(kw.items())))
    if key not in _cache:
        _cache[key] = PreparedVals(vals_program(idx, **kw))
    return _cache[key]


def type_kinds(t, out=None):
    """all kinds occurring in a type tree"""
    if out is None:
        out = set()
    out.add(t['k'] if t['k'] != 'niche' else 'niche-' + t['form'])
    for key in ('inner', 'key', 'val', 'ok', 'err'):
        if key in t:
            type_kinds(t[key], out)
    for x in t.get('items', []):
        type_kinds(x, out)
    for f in t.get('fields', []):
        type_kinds(f[1], out)
    if t['k'] == 'enum':
        for name, shape, fields in t['variants']:
            for f in fields:
                type_kinds(f[1] if shape == 'struct' else f, out)
    return out
