"""Reference DWARF decoder built on llvm-dwarfdump text output (no gimli involved).

load(binary_path, user_sources) -> DwarfRef with
  .cus        user compile units
  .rows       all line rows of user CUs (per sequence), .files
  .subprograms concrete subprograms (with ranges), namespace chain from DIE parents
"""
import bisect
import os
import re
import subprocess

DWARFDUMP = 'llvm-dwarfdump-14'

_die_re = re.compile(r'^(0x[0-9a-f]+):(\s+)(DW_TAG_\w+|NULL)')
_attr_re = re.compile(r'^\s+(DW_AT_\w+)\s+\((.*)$')
_range_re = re.compile(r'\[(0x[0-9a-f]+), (0x[0-9a-f]+)\)')


class Die:
    __slots__ = ('off', 'tag', 'attrs', 'children', 'parent', 'ranges')

    def __init__(self, off, tag, parent):
        self.off = off
        self.tag = tag
        self.attrs = {}
        self.children = []
        self.parent = parent
        self.ranges = None

    def name(self):
        v = self.attrs.get('DW_AT_name')
        if v is None:
            return None
        m = re.match(r'^"(.*)"\)?$', v)
        return m.group(1) if m else v

    def str_attr(self, a):
        v = self.attrs.get(a)
        if v is None:
            return None
        m = re.match(r'^"(.*)"\)?$', v)
        return m.group(1) if m else v.rstrip(')')

    def int_attr(self, a):
        v = self.attrs.get(a)
        if v is None:
            return None
        m = re.match(r'^(0x[0-9a-f]+|\d+)', v)
        if not m:
            return None
        return int(m.group(1), 0)

    def ref_attr(self, a):
        v = self.attrs.get(a)
        if v is None:
            return None
        m = re.match(r'^(0x[0-9a-f]+)', v)
        return int(m.group(1), 16) if m else None

    def pc_ranges(self):
        """list of (lo, hi)"""
        if self.ranges is not None:
            return self.ranges
        lo = self.int_attr('DW_AT_low_pc')
        hi = self.attrs.get('DW_AT_high_pc')
        if lo is not None and hi is not None and 'DW_AT_ranges' not in self.attrs:
            h = self.int_attr('DW_AT_high_pc')
            return [(lo, h)] if h is not None and h > lo else []
        return []


def parse_info(path, want_cu):
    """parse --debug-info text; want_cu(name) selects CUs. Returns list of CU root Dies and an
    offset->Die map."""
    p = subprocess.Popen([DWARFDUMP, '--debug-info', path], stdout=subprocess.PIPE, text=True, errors='replace')
    cus = []
    by_off = {}
    stack = []      # (indent, die)
    cur = None
    in_wanted = False
    pending_cu = None
    last_attr = None
    for line in p.stdout:
        m = _die_re.match(line)
        if m:
            off = int(m.group(1), 16)
            indent = len(m.group(2))
            tag = m.group(3)
            if tag == 'DW_TAG_compile_unit':
                # finish; start deciding on the new CU
                pending_cu = Die(off, tag, None)
                cur = pending_cu
                stack = [(indent, pending_cu)]
                in_wanted = None   # unknown until DW_AT_name is seen
                last_attr = None
                continue
            if in_wanted is None:
                # first child DIE of the CU: decide now
                nm = pending_cu.name() or ''
                in_wanted = bool(want_cu(nm))
                if in_wanted:
                    cus.append(pending_cu)
                    by_off[pending_cu.off] = pending_cu
            if not in_wanted:
                cur = None
                continue
            if tag == 'NULL':
                cur = None
                continue
            while stack and stack[-1][0] >= indent:
                stack.pop()
            parent = stack[-1][1] if stack else None
            d = Die(off, tag, parent)
            if parent is not None:
                parent.children.append(d)
            by_off[off] = d
            stack.append((indent, d))
            cur = d
            last_attr = None
            continue
        if cur is None:
            continue
        a = _attr_re.match(line)
        if a:
            key = a.group(1)
            val = a.group(2).rstrip('\n')
            if val.endswith(')') and val.count('(') < val.count(')'):
                val = val[:-1]
            cur.attrs[key] = val
            last_attr = key
            if key == 'DW_AT_ranges':
                cur.ranges = [(int(x, 16), int(y, 16)) for x, y in _range_re.findall(val)]
            continue
        if last_attr in ('DW_AT_ranges', 'DW_AT_location') and line.startswith(' '):
            if last_attr == 'DW_AT_ranges':
                for x, y in _range_re.findall(line):
                    cur.ranges.append((int(x, 16), int(y, 16)))
            else:
                cur.attrs['DW_AT_location'] += '\n' + line.strip()
    p.wait()
    if in_wanted is None and pending_cu is not None and want_cu(pending_cu.name() or ''):
        cus.append(pending_cu)
    return cus, by_off


class Row:
    __slots__ = ('addr', 'line', 'col', 'file', 'is_stmt', 'prologue_end', 'epilogue_begin', 'end_seq', 'seq')

    def __repr__(self):
        return f'Row({self.addr:#x} l{self.line} f{self.file} {"S" if self.is_stmt else "-"}{"P" if self.prologue_end else ""}{"E" if self.end_seq else ""})'


_row_re = re.compile(r'^(0x[0-9a-f]{16})\s+(\d+)\s+(\d+)\s+(\d+)\s+(\d+)\s+(\d+)(?:\s+(\d+))?\s*(.*)$')


def parse_line_table(path, stmt_list, comp_dir):
    out = subprocess.run([DWARFDUMP, f'--debug-line={stmt_list:#x}', path], stdout=subprocess.PIPE, text=True,
                         errors='replace').stdout
    version = 4
    dirs = {}
    files = {}
    rows = []
    seq = 0
    cur_file = None
    for line in out.splitlines():
        s = line.strip()
        if s.startswith('version:'):
            version = int(s.split(':')[1])
        elif s.startswith('include_directories['):
            m = re.match(r'include_directories\[\s*(\d+)\] = "(.*)"', s)
            if m:
                dirs[int(m.group(1))] = m.group(2)
        elif s.startswith('file_names['):
            cur_file = int(re.match(r'file_names\[\s*(\d+)\]', s).group(1))
            files[cur_file] = {'name': None, 'dir': 0}
        elif s.startswith('name:') and cur_file is not None:
            files[cur_file]['name'] = re.match(r'name: "(.*)"', s).group(1)
        elif s.startswith('dir_index:') and cur_file is not None:
            files[cur_file]['dir'] = int(s.split(':')[1])
        else:
            m = _row_re.match(line)
            if m:
                r = Row()
                r.addr = int(m.group(1), 16)
                r.line = int(m.group(2))
                r.col = int(m.group(3))
                r.file = int(m.group(4))
                flags = m.group(8)
                r.is_stmt = 'is_stmt' in flags
                r.prologue_end = 'prologue_end' in flags
                r.epilogue_begin = 'epilogue_begin' in flags
                r.end_seq = 'end_sequence' in flags
                r.seq = seq
                rows.append(r)
                if r.end_seq:
                    seq += 1
    paths = {}
    for idx, f in files.items():
        d = f['dir']
        if version >= 5:
            base = dirs.get(d, comp_dir)
        else:
            base = comp_dir if d == 0 else dirs.get(d, comp_dir)
        nm = f['name'] or ''
        full = nm if nm.startswith('/') else os.path.normpath(os.path.join(base if base.startswith('/') else os.path.join(comp_dir, base), nm))
        paths[idx] = full
    return rows, paths, version


class Subprogram:
    def __init__(self, die, cu):
        self.die = die
        self.cu = cu
        self.off = die.off
        self.ranges = []
        self.name = None
        self.linkage = None
        self.ns = []
        self.decl_line = None
        self.decl_file = None
        self.inlined = []       # (ranges, origin name, call_line) at any depth
        self.blocks = []        # lexical blocks (ranges, die)

    def contains(self, pc):
        return any(lo <= pc < hi for lo, hi in self.ranges)

    def low(self):
        return min(lo for lo, _ in self.ranges)

    def full_name(self):
        return '::'.join(self.ns + [self.name or '?'])

    def in_inlined(self, pc):
        return any(lo <= pc < hi for rs, _, _ in self.inlined for lo, hi in rs)


class DwarfRef:
    def __init__(self, path, user_sources):
        self.path = path
        names = [os.path.basename(s) for s in user_sources]

        def want(cu_name):
            return any(cu_name.startswith(n + '/@/') or cu_name == n or cu_name.endswith('/' + n) or ('/' + n + '/@/') in cu_name
                       for n in names)
        self.cus, self.by_off = parse_info(path, want)
        self.rows = []          # all rows of user CUs
        self.files = {}         # (cu index, file idx) -> path
        self.cu_rows = []
        self.subprograms = []
        for ci, cu in enumerate(self.cus):
            comp_dir = cu.str_attr('DW_AT_comp_dir') or '/'
            sl = cu.int_attr('DW_AT_stmt_list')
            rows, paths, ver = parse_line_table(path, sl or 0, comp_dir)
            for r in rows:
                r.seq = (ci, r.seq)
            self.cu_rows.append(rows)
            for k, v in paths.items():
                self.files[(ci, k)] = v
            for r in rows:
                r.file = (ci, r.file)
            self.rows.extend(rows)
            self._collect(cu, ci, [])
        self.rows_sorted = sorted([r for r in self.rows], key=lambda r: (r.addr, 0 if r.end_seq else 1))
        # per-sequence row lists for pc lookup
        self.seqs = {}
        for r in self.rows:
            self.seqs.setdefault(r.seq, []).append(r)
        self.seq_list = []
        for k, rs in self.seqs.items():
            if len(rs) >= 2:
                self.seq_list.append((rs[0].addr, rs[-1].addr, rs))
        self.seq_list.sort(key=lambda t: t[0])
        self.subprograms.sort(key=lambda s: s.low())

    def _resolve_names(self, die):
        """(name, linkage, decl_line, decl_file, ns) following specification/abstract_origin"""
        seen = 0
        d = die
        name = linkage = decl_line = decl_file = None
        ns_die = None
        while d is not None and seen < 5:
            name = name or d.name()
            linkage = linkage or d.str_attr('DW_AT_linkage_name')
            decl_line = decl_line or d.int_attr('DW_AT_decl_line')
            decl_file = decl_file or d.str_attr('DW_AT_decl_file')
            ref = d.ref_attr('DW_AT_specification') or d.ref_attr('DW_AT_abstract_origin')
            if ns_die is None or ref is not None:
                ns_die = d
            d = self.by_off.get(ref) if ref is not None else None
            seen += 1
        ns = []
        p = ns_die.parent if ns_die is not None else None
        while p is not None:
            if p.tag in ('DW_TAG_namespace', 'DW_TAG_structure_type', 'DW_TAG_enumeration_type', 'DW_TAG_union_type'):
                ns.append(p.name() or '')
            p = p.parent
        ns.reverse()
        return name, linkage, decl_line, decl_file, ns

    def _collect(self, die, ci, path):
        for ch in die.children:
            if ch.tag == 'DW_TAG_subprogram':
                rs = ch.pc_ranges()
                if rs:
                    sp = Subprogram(ch, ci)
                    sp.ranges = rs
                    sp.name, sp.linkage, sp.decl_line, sp.decl_file, sp.ns = self._resolve_names(ch)
                    self._collect_inner(ch, sp)
                    self.subprograms.append(sp)
            self._collect(ch, ci, path)

    def _collect_inner(self, die, sp):
        for ch in die.children:
            if ch.tag == 'DW_TAG_inlined_subroutine':
                o = self.by_off.get(ch.ref_attr('DW_AT_abstract_origin'))
                sp.inlined.append((ch.pc_ranges(), (o.name() if o else None), ch.int_attr('DW_AT_call_line')))
                self._collect_inner(ch, sp)
            elif ch.tag == 'DW_TAG_lexical_block':
                sp.blocks.append((ch.pc_ranges(), ch))
                self._collect_inner(ch, sp)

    # -------- queries
    def row_for_pc(self, pc):
        """the line row governing pc: last row with addr <= pc inside the sequence containing pc"""
        for lo, hi, rs in self.seq_list:
            if lo <= pc < hi:
                addrs = [r.addr for r in rs]
                i = bisect.bisect_right(addrs, pc) - 1
                # several rows may share an address; the last one of them governs
                if i < 0:
                    return None
                r = rs[i]
                if r.end_seq:
                    return None
                return r
        return None

    def rows_at(self, pc):
        """all non-end rows with exactly this address"""
        out = []
        for lo, hi, rs in self.seq_list:
            if lo <= pc < hi:
                out.extend(r for r in rs if r.addr == pc and not r.end_seq)
        return out

    def func_for_pc(self, pc):
        best = None
        for sp in self.subprograms:
            if sp.contains(pc):
                if best is None:
                    best = sp
        return best

    def file_of(self, row):
        return self.files.get(row.file)

    def user_file_rows(self, src_basename):
        return [r for r in self.rows if (self.files.get(r.file) or '').endswith('/' + src_basename)]
