"""Independent DAP client and wire monitor for the real `bs` adapter (TCP, --dap-remote ... --dap-oneshot).

The client owns the framing code (Content-Length headers) and records every byte-exact message of the adapter in
wire order together with what was sent. `wire_check` is the offline checker of the protocol clauses of C12."""
import json
import os
import select
import socket
import subprocess
import time

from . import common

RESUMES = ('continue', 'next', 'stepIn', 'stepOut', 'configurationDone', 'restart', 'reverseContinue', 'stepBack', 'goto', 'restartFrame')


def free_port():
    s = socket.socket()
    s.bind(('127.0.0.1', 0))
    p = s.getsockname()[1]
    s.close()
    return p


class DapDead(Exception):
    pass


class Dap:
    def __init__(self, extra_env=None, connect_timeout=20):
        self.port = free_port()
        env = common.fixed_env(extra_env)

        def pre():
            os.setsid()
        self.proc = subprocess.Popen([common.BS, '--dap-remote', f'127.0.0.1:{self.port}', '--dap-oneshot'], stdin=subprocess.DEVNULL,
                                     stdout=subprocess.DEVNULL, stderr=subprocess.PIPE, env=env, preexec_fn=pre)
        self.sock = None
        deadline = time.time() + connect_timeout
        while time.time() < deadline:
            try:
                self.sock = socket.create_connection(('127.0.0.1', self.port), timeout=1)
                break
            except OSError:
                if self.proc.poll() is not None:
                    break
                time.sleep(0.03)
        if self.sock is None:
            self.kill()
            raise DapDead('cannot connect')
        self.sock.setblocking(False)
        self.buf = b''
        self.seq = 0
        self.log = []        # adapter messages in wire order
        self.sent = []       # (seq, command, arguments, index of the last adapter message seen when it was sent)
        self.closed = False
        self.framing_errors = []

    # ------------------------------------------------------------------ wire
    def send_raw(self, payload: bytes):
        try:
            self.sock.setblocking(True)
            self.sock.sendall(b'Content-Length: %d\r\n\r\n' % len(payload) + payload)
            self.sock.setblocking(False)
        except OSError:
            self.closed = True

    def send(self, command, arguments=None, drop_arguments=False, extra=None):
        self.seq += 1
        msg = {'seq': self.seq, 'type': 'request', 'command': command}
        if arguments is not None and not drop_arguments:
            msg['arguments'] = arguments
        if extra:
            msg.update(extra)
        self.sent.append((self.seq, command, arguments, len(self.log)))
        self.send_raw(json.dumps(msg).encode())
        return self.seq

    def _parse(self):
        while True:
            i = self.buf.find(b'\r\n\r\n')
            if i < 0:
                return
            head = self.buf[:i]
            length = None
            for line in head.split(b'\r\n'):
                if line.lower().startswith(b'content-length:'):
                    try:
                        length = int(line.split(b':', 1)[1])
                    except ValueError:
                        pass
            if length is None:
                self.framing_errors.append(head[:80].decode('latin1'))
                self.buf = self.buf[i + 4:]
                continue
            if len(self.buf) < i + 4 + length:
                return
            body = self.buf[i + 4:i + 4 + length]
            self.buf = self.buf[i + 4 + length:]
            try:
                self.log.append(json.loads(body))
            except ValueError:
                self.framing_errors.append('bad json: ' + body[:80].decode('latin1'))

    def pump(self, timeout=0.0):
        """read whatever arrives within timeout"""
        if self.closed:
            return False
        r, _, _ = select.select([self.sock], [], [], timeout)
        if not r:
            return False
        try:
            chunk = self.sock.recv(1 << 20)
        except BlockingIOError:
            return False
        except OSError:
            self.closed = True
            return False
        if not chunk:
            self.closed = True
            return False
        self.buf += chunk
        self._parse()
        return True

    def wait(self, pred, timeout=30, start=0):
        """first message at index >= start satisfying pred (waits for it); None on timeout/close"""
        deadline = time.time() + timeout
        i = start
        while True:
            while i < len(self.log):
                if pred(self.log[i]):
                    return self.log[i]
                i += 1
            left = deadline - time.time()
            if left <= 0 or self.closed:
                # drain what is already buffered
                self.pump(0)
                while i < len(self.log):
                    if pred(self.log[i]):
                        return self.log[i]
                    i += 1
                return None
            self.pump(min(left, 0.2))

    def request(self, command, arguments=None, timeout=30, **kw):
        start = len(self.log)
        seq = self.send(command, arguments, **kw)
        return self.wait(lambda m: m.get('type') == 'response' and m.get('request_seq') == seq, timeout, start)

    def wait_event(self, names, timeout=30, start=0):
        names = (names,) if isinstance(names, str) else names
        return self.wait(lambda m: m.get('type') == 'event' and m.get('event') in names, timeout, start)

    def quiesce(self, idle=0.3, limit=5.0):
        """read until nothing arrived for `idle` seconds"""
        t0 = time.time()
        last = time.time()
        while time.time() - t0 < limit and not self.closed:
            if self.pump(0.05):
                last = time.time()
            elif time.time() - last > idle:
                break

    def kill(self):
        try:
            os.killpg(self.proc.pid, 9)
        except Exception:
            pass
        try:
            self.proc.kill()
            self.proc.wait(timeout=5)
        except Exception:
            pass
        try:
            if self.sock:
                self.sock.close()
        except Exception:
            pass

    def close(self):
        self.quiesce(0.2, 2.0)
        rc = self.proc.poll()
        err = b''
        self.kill()
        try:
            err = self.proc.stderr.read() or b''
        except Exception:
            pass
        return rc, err


def wire_check(d, ctx=None):
    """offline checker over one recorded session; returns [(signature, what, detail)]"""
    out = []
    ctx = ctx or {}
    log = d.log
    for fe in d.framing_errors:
        out.append(('c12:malformed-frame', 'the adapter wrote a frame that cannot be parsed', dict(ctx, frame=fe)))
    # ---- sequence numbers 1,2,3.. in wire order
    seqs = [m.get('seq') for m in log]
    for i, s in enumerate(seqs):
        if s != i + 1:
            out.append(('c12:sequence-numbers-not-in-wire-order', 'adapter messages do not carry sequence numbers 1,2,3,... in the order they appear on the wire',
                        dict(ctx, position=i + 1, seq=s, around=[(m.get('seq'), m.get('type'), m.get('command') or m.get('event')) for m in log[max(0, i - 3):i + 3]])))
            break
    # ---- one response per request, matching request_seq and command
    sent = {s: (c, a, at) for s, c, a, at in d.sent}
    resp = {}
    term_idx = next((i for i, m in enumerate(log) if m.get('type') == 'event' and m.get('event') == 'terminated'), None)
    for i, m in enumerate(log):
        if m.get('type') != 'response':
            continue
        rs = m.get('request_seq')
        if rs not in sent:
            out.append(('c12:response-to-unknown-request', 'a response names a request_seq that was never sent', dict(ctx, message=m)))
            continue
        resp.setdefault(rs, []).append(m)
        if m.get('command') != sent[rs][0]:
            out.append(('c12:response-command-mismatch', 'a response carries a command other than the one of its request', dict(ctx, request=sent[rs][0], message=m)))
    for s, (c, a, at) in sent.items():
        n = len(resp.get(s, []))
        if n > 1:
            kinds = [bool(r.get('success')) for r in resp[s]]
            out.append((f'c12:duplicate-response:{c}', 'a request received more than one response',
                        dict(ctx, command=c, arguments=a, responses=[(r.get('seq'), r.get('success'), (r.get('message') or '')[:80]) for r in resp[s]])))
        elif n == 0:
            # a request sent when the session was already over (after terminate/disconnect was answered) needs no answer
            if getattr(d, 'session_over_at', None) is not None and s > d.session_over_at:
                continue
            out.append((f'c12:no-response:{c}', 'a request received no response (silence or dropped connection)',
                        dict(ctx, command=c, arguments=a, closed=d.closed)))
    # ---- events: causal order and exactly-once
    term = [i for i, m in enumerate(log) if m.get('type') == 'event' and m.get('event') == 'terminated']
    exited = [i for i, m in enumerate(log) if m.get('type') == 'event' and m.get('event') == 'exited']
    if len(term) > 1:
        out.append(('c12:terminated-sent-twice', '`terminated` was sent more than once', dict(ctx, at=term)))
    if len(exited) > 1:
        out.append(('c12:exited-sent-twice', '`exited` was sent more than once', dict(ctx, at=exited)))
    if term and exited and exited[0] > term[0]:
        out.append(('c12:exited-after-terminated', '`exited` was sent after `terminated`', dict(ctx)))
    if term:
        late = [(m.get('seq'), m.get('event')) for m in log[term[0] + 1:] if m.get('type') == 'event']
        if late and not getattr(d, 'restarted_after_term', False):
            out.append((f'c12:event-after-terminated:{late[0][1]}', 'an event was sent after `terminated`', dict(ctx, events=late[:5])))
    # stops: between two `stopped` events there must be a resume request that was answered with success
    resume_ok_idx = []
    for s, (c, a, at) in sent.items():
        if c in RESUMES and resp.get(s) and resp[s][0].get('success'):
            resume_ok_idx.append(log.index(resp[s][0]))
    resume_ok_idx.sort()
    stops = [i for i, m in enumerate(log) if m.get('type') == 'event' and m.get('event') == 'stopped']
    # position of the response of every resume / pause request (the adapter handles requests in order and answers a
    # resume before it runs the program, so a legitimate stop is preceded by such a response after the previous stop)
    legit = []
    for s_, (c, a, at) in sent.items():
        if c in RESUMES or c == 'pause':
            for r in resp.get(s_, []):
                legit.append(log.index(r))
            legit.append(at - 0.5)
    prev = -1
    for si in stops:
        if prev >= 0 and not any(prev < x < si for x in legit):
            out.append(('c12:stopped-announced-twice', 'two `stopped` events without a resume or pause request handled in between',
                        dict(ctx, first=log[prev], second=log[si])))
            break
        prev = si
    # threads: started before any event naming the thread, exited at most once
    started, gone = set(), set()
    for m in log:
        if m.get('type') != 'event':
            continue
        b = m.get('body') or {}
        if m.get('event') == 'thread':
            tid = b.get('threadId')
            if b.get('reason') == 'started':
                if tid in started and tid not in gone:
                    out.append(('c12:thread-started-twice', 'a thread start was announced twice', dict(ctx, thread=tid)))
                started.add(tid)
                gone.discard(tid)
            elif b.get('reason') == 'exited':
                if tid in gone:
                    out.append(('c12:thread-exited-twice', 'a thread exit was announced twice', dict(ctx, thread=tid)))
                if tid not in started:
                    out.append(('c12:thread-exited-before-started', 'a thread exit was announced for a thread never announced as started', dict(ctx, thread=tid)))
                gone.add(tid)
        elif m.get('event') == 'stopped':
            tid = b.get('threadId')
            if tid is not None and tid not in started:
                out.append(('c12:stopped-names-unannounced-thread', 'a `stopped` event names a thread that was never announced by a thread event',
                            dict(ctx, thread=tid, started=sorted(started))))
    return out
