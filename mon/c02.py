"""C02: debugging never changes what the program computes or leaves patches behind.

Random command histories (valid and failing commands) over generated programs. After every command
the text-integrity monitor diffs all file-backed executable mappings against the ELF files: the
differing bytes must be exactly the user's enabled breakpoints plus the documented internal ones
(ELF entry, r_debug.r_brk). At the end the debuggee's output and exit status must equal the native
run (times the number of completed runs when the history restarted the program).
"""
import os

from . import common, flowlib
from .common import Verdict, rng_for
from .flowrun import Ref
from .session import Session, Crash, reloc, MON_LIGHT


OPS = ['cont', 'stepi', 'step', 'next', 'finish', 'break', 'remove', 'watch', 'unwatch', 'restart', 'bad', 'frame']


def run_case(spec):
    idx, hist, cfg, tier = spec
    v = Verdict('C02', tier, '')
    try:
        prep = flowlib.prepare(idx, **cfg)
    except Exception as e:
        v.inconc('prepare-failed', str(e))
        return v.export()
    okk, why = prep.oracle_ok()
    if not okk:
        v.inconc('oracle-unusable', why)
        return v.export()
    rng = rng_for(common.seed(), 'c02', idx, hist, sorted(cfg.items()))
    ref = Ref(prep)
    side = prep.b.side
    src = os.path.basename(prep.b.src)
    S = Session(prep.b, v, mon=dict(MON_LIGHT, dr=True))
    ops_done = []

    def sfx():
        # a signal that is pending at a breakpoint stop or arrives during a step is lost / delivered late (C10 known findings):
        # in a program whose checksum counts handler runs this changes the output; keyed separately so that it cannot hide
        # an output difference of a program without signals
        stepped = any(o.split(':')[-1] in ('stepi', 'step', 'next', 'finish', 'cont') for o in ops_done)
        return ':signal-program' if cfg.get('signals') and stepped else ''
    completed_runs = 0
    bps = {}        # relocated addr -> num
    wps = []
    local_wps = set()   # numbers of watchpoints on locals (they own an end-of-scope companion breakpoint)
    tick_addr = prep.b.sym_addr('TICK')
    ex = prep.stmt_addrs(executed_only=True)
    hot = [a for a in ex if len(prep.trace.by_pc()[a]) > 2]
    detached = False
    try:
        S.launch()
        # some breakpoints before start
        for _ in range(rng.randint(1, 3)):
            a = rng.choice(hot or ex)
            r = S.cmd('break_addr', addr=a)
            if 'ok' in r:
                bps[a] = r['ok']['num']
        r = S.cmd('start')
        if r.get('ok', {}).get('stop') == 'exit':
            completed_runs += 1
        if cfg.get('signals') and not S.exited and rng.random() < 0.8:
            # targeted prelude: stop on a line that raises a signal in its callee, then step over / into / out of it, so that
            # the step command is interrupted by the signal (its error and early-return paths run under the text monitor)
            sig_lines = [i + 1 for i, l in enumerate(open(prep.b.src).read().splitlines()) if 'sig_me(x);' in l and 'fn ' not in l]
            if sig_lines:
                ln = rng.choice(sig_lines)
                rb = S.cmd('break_line', file=src, line=ln)
                tmp = [reloc(prep.b, vw['addr']) for vw in (rb.get('ok') or [])]
                for a, vw in zip(tmp, rb.get('ok') or []):
                    bps[a] = vw['num']
                for _ in range(60):
                    r = S.cmd('cont', timeout=180)
                    okv = r.get('ok') or {}
                    if okv.get('stop') == 'exit':
                        completed_runs += 1
                        break
                    if okv.get('stop') == 'breakpoint' and okv.get('pc') in tmp:
                        op = rng.choice(['next', 'next', 'step', 'finish'])
                        ops_done.append('sigstep:' + op)
                        r = S.cmd(op, timeout=180)
                        if any(e.get('ev') == 'signal' for e in r.get('ev', [])):
                            v.count('steps_interrupted_by_signal')
                        break
        n = rng.randint(10, 30 if tier == 'quick' else 45)
        weights = [6, 4, 3, 4, 3, 3, 3, 3, 2, 1, 2, 1]
        for _ in range(n):
            op = rng.choices(OPS, weights=weights)[0]
            if S.exited and op in ('cont', 'stepi', 'step', 'next', 'finish') and rng.random() < 0.7:
                op = 'restart'
            ops_done.append(op)
            if op in ('cont', 'stepi', 'step', 'next', 'finish'):
                was_exited = S.exited
                r = S.cmd(op, timeout=180)
                if not was_exited and S.exited:
                    completed_runs += 1
                    local_wps.clear()
                for e in r.get('ev', []):
                    if e.get('ev') == 'watchpoint' and e.get('end_of_scope'):
                        local_wps.discard(e.get('num'))
                        if e.get('num') in wps:
                            wps.remove(e.get('num'))
                S.tolerate_extra_int3 = bool(local_wps)
                if 'ok' not in r:
                    v.count('failing_commands')
            elif op == 'break':
                k = rng.random()
                if k < 0.5:
                    a = rng.choice(ex)
                    r = S.cmd('break_addr', addr=a)
                    if 'ok' in r:
                        bps[a] = r['ok']['num']
                elif k < 0.8:
                    f = rng.choice(side['funcs'])
                    r = S.cmd('break_line', file=src, line=rng.choice(f['stmt_lines']))
                    for vw in r.get('ok') or []:
                        bps[reloc(prep.b, vw['addr'])] = vw['num']
                else:
                    r = S.cmd('break_fn', name=rng.choice(['mix', 'rec', 'f0', 'gen_id', 'area', 'f1']))
                    for vw in r.get('ok') or []:
                        bps[reloc(prep.b, vw['addr'])] = vw['num']
            elif op == 'remove':
                if bps:
                    a = rng.choice(sorted(bps))
                    if rng.random() < 0.5:
                        S.cmd('remove_num', num=bps[a])
                    else:
                        S.cmd('remove_addr', addr=a)
                    bps.pop(a, None)
            elif op == 'watch' and not S.exited and rng.random() < 0.45:
                # a watchpoint on a local / argument of the current function: it owns an internal end-of-scope breakpoint,
                # which is a documented internal patch only while such a watchpoint exists
                S.tolerate_extra_int3 = True
                for name in rng.sample(['x', 'a'], k=rng.choice([1, 2, 2])):   # two locals of one scope share one end-of-scope breakpoint
                    r = S.cmd('watch_expr', expr=name, cond=rng.choice(['w', 'rw']))
                    if 'ok' in r:
                        local_wps.add(r['ok']['num'])
                        wps.append(r['ok']['num'])
                        v.count('local_watchpoints')
                    else:
                        v.count('failing_commands')
                S.tolerate_extra_int3 = bool(local_wps)
                if not local_wps:
                    S.cmd('bps')        # a refused request must leave no patch: strict text check right now
            elif op == 'watch':
                if tick_addr and not S.exited:
                    a = tick_addr + rng.choice([0, 0, 8, 16, 24, 32])   # TICK and its neighbours
                    r = S.cmd('watch_mem', addr=a, size=rng.choice([1, 2, 4, 8]), cond=rng.choice(['w', 'rw']))
                    if 'ok' in r:
                        wps.append(r['ok']['num'])
                    else:
                        v.count('failing_commands')
            elif op == 'unwatch':
                if wps:
                    for _ in range(len(wps) if rng.random() < 0.5 else 1):
                        num = wps.pop(rng.randrange(len(wps)))
                        local_wps.discard(num)
                        S.tolerate_extra_int3 = bool(local_wps)
                        S.cmd('unwatch_num', num=num)
            elif op == 'restart':
                local_wps.clear()
                r = S.cmd('restart', timeout=180)
                S.tolerate_extra_int3 = False
                wps = []
                if 'ok' in r:
                    v.count('restarts')
                    if S.exited:
                        completed_runs += 1
            elif op == 'frame':
                S.cmd('frame', num=rng.randint(0, 3))
            elif op == 'bad':
                k = rng.randrange(6)
                v.count('failing_commands')
                if k == 0:
                    S.cmd('break_addr', addr=rng.choice([0x10, 0x7fff_0000_0000, 0xdead_beef_000]))
                elif k == 1:
                    S.cmd('break_line', file='no_such_file.rs', line=3)
                elif k == 2:
                    S.cmd('break_fn', name='no_such_function_zq')
                elif k == 3:
                    S.cmd('remove_num', num=9999)
                elif k == 4:
                    S.cmd('watch_mem', addr=(tick_addr or 0x1000) + 3, size=8, cond='w')   # misaligned
                else:
                    S.cmd('frame', num=5000)
        # ---- epilogue: run the program to completion
        ending = rng.choice(['remove-all', 'remove-all', 'detach']) if not S.exited else 'exited'
        if ending == 'remove-all':
            for a in sorted(bps):
                S.cmd('remove_addr', addr=a)
            r = S.cmd('cont', timeout=180)
            guard = 0
            while 'ok' in r and r['ok'].get('stop') not in ('exit',) and guard < 50:
                # breakpoints whose address we do not track (line/fn before start) may remain: remove by snapshot
                for b in (S.cmd('bps', mon=False).get('ok') or []):
                    S.cmd('remove_num', num=b['num'])
                r = S.cmd('cont', timeout=180)
                guard += 1
            if S.exited:
                completed_runs += 1
                code = r.get('ok', {}).get('code')
                v.count('exit_codes_checked')
                if code != prep.native[2]:
                    v.violation('c02:exit-status-differs' + sfx(), 'exit status reported under the debugger differs from the native run',
                                {'got': code, 'native': prep.native[2], 'ops': ops_done, 'history': S.history[-40:], 'binary': prep.b.path})
        elif ending == 'detach':
            r = S.cmd('detach', mon=False)
            detached = 'ok' in r
            if detached:
                st = S.w.cmd('wait_exit', timeout_ms=20000, timeout=30)
                v.count('detached_runs')
                completed_runs += 1
                if st.get('ok') != {'exited': prep.native[2]}:
                    v.violation('c02:detached-process-does-not-finish-natively' + sfx(),
                                'after detach the program did not run to its native exit status (a patch or stop was left behind)',
                                {'wait': st, 'native': prep.native[2], 'ops': ops_done, 'history': S.history[-40:], 'binary': prep.b.path})
        exp = prep.native[0] * completed_runs
        out, err = S.output(expect_stdout=exp)
        v.count('outputs_compared')
        if out != exp:
            v.violation('c02:output-differs' + sfx(), 'debuggee output differs from the native run',
                        {'got': out[-300:].decode('latin1'), 'expected': exp[-300:].decode('latin1'), 'completed_runs': completed_runs,
                         'ops': ops_done, 'history': S.history[-40:], 'binary': prep.b.path})
        v.count('commands', len(S.history))
        v.case(signature=('c02', idx, tuple(sorted(cfg.items())), tuple(ops_done[:14]), ending),
               sample={'program': src, 'cfg': cfg, 'ops': ops_done, 'ending': ending, 'completed_runs': completed_runs,
                       'text_checks': S.text_checks})
        v.count('histories')
    except Crash as c:
        v.violation(f'crash:{c.kind}:{(c.info or {}).get("panic", {}).get("loc") if c.kind == "panic" else (c.info or {}).get("cmd")}',
                    f'debugger {c.kind} during a command history', {'info': c.info, 'ops': ops_done, 'history': S.history[-40:], 'binary': prep.b.path}, prop='C08')
    finally:
        S.close()
    return v.export()


def _prep(p):
    idx, cfg, validate = p
    try:
        flowlib.prepare(idx, validate=validate, **dict(cfg))
    except Exception as e:
        return str(e)


def main(tier):
    rule = ('case = (generated flow program, config, seeded history of 10-45 commands from {cont, stepi, step, next, finish, break, remove, '
            'watch, unwatch, restart, frame, failing commands}, ending in remove-all+continue or detach); after every command all executable '
            'file mappings are diffed against the ELF files; distinct = distinct (program, config, op prefix, ending)')
    V = Verdict('C02', tier, rule)
    V.minima = {'mon_text_evals': 600, 'outputs_compared': 20, 'failing_commands': 20} if tier == 'quick' else \
        {'mon_text_evals': 5000, 'outputs_compared': 200, 'failing_commands': 400, 'restarts': 20, 'detached_runs': 20}
    V.assumptions = ['allowed internal patches are computed independently: ELF e_entry of the executable and _dl_debug_state of ld.so',
                     'only file-backed executable mappings are compared (no text relocations in the corpus)']
    if tier == 'quick':
        cfgs = [dict(tc='1.89', opt=0, dwarf=4, pie=True), dict(tc='1.95', opt=0, dwarf=5, pie=True)]
        specs = [(i, h, dict(cfgs[i % 2], signals=(h % 2 == 1)), tier) for i in range(6) for h in range(8)]
    else:
        cfgs = [dict(tc=tc, opt=o, dwarf=d, pie=True) for tc in ('1.89', '1.95') for o in (0, 1) for d in (4, 5)]
        specs = [(i, h, dict(cfgs[(i + h) % len(cfgs)], signals=(h % 2 == 1)), tier) for i in range(30) for h in range(8)]
    progs = sorted({(s[0], tuple(sorted(s[2].items())), tier == 'thorough') for s in specs})
    common.parallel_map(_prep, progs)
    for res in common.safe_map(run_case, specs):
        V.merge(res)
    return V.finish()
