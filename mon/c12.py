"""C12: the DAP adapter speaks the protocol correctly for any request history.

Seeded request histories from a DAP grammar (valid requests, requests with missing / ill-typed / huge / negative
arguments, repeated and out-of-order requests, pipelined requests, requests after the program ended) are sent to
the real `bs` adapter over TCP while the debuggee writes bursts of stdout and stderr lines around every stop and
starts and joins threads. Seeded delay points of the `verif` feature sit between sequence-number allocation and
the transport write in the session thread and in both output forwarders. The byte stream of the adapter is parsed
by the monitor's own framing code and checked offline (mon/dap.py wire_check): sequence numbers 1,2,3,... in wire
order; exactly one response per request with matching request_seq and command; `stopped` once per resume;
`exited` before `terminated`, each once, no event after `terminated`; thread start before use, exit once; an
ill-formed request gets success:false and the connection stays usable (a `threads` canary follows).
"""
import os
import sys

sys.path.insert(0, os.path.dirname(os.path.dirname(os.path.abspath(__file__))))
from gen import storm  # noqa: E402
from . import common, corpus  # noqa: E402
from .common import Verdict, rng_for  # noqa: E402
from .dap import Dap, DapDead, wire_check, RESUMES  # noqa: E402

HUGE = [2 ** 31, 2 ** 53, 2 ** 63, 2 ** 64, -1, -2 ** 31, 10 ** 30]


def mutate_args(cmd, args, rng):
    """an ill-formed variant of a request's arguments"""
    k = rng.randrange(6)
    if k == 0 or not isinstance(args, dict) or not args:
        return None, True            # arguments missing altogether
    a = dict(args)
    key = rng.choice(sorted(a))
    if k == 1:
        a.pop(key)
    elif k == 2:
        a[key] = rng.choice(['text', None, [], {}, True])
    elif k == 3:
        a[key] = rng.choice(HUGE)
    elif k == 4:
        a[key] = rng.choice([-1, 0, 1.5, '0x', '-0x10', '9' * 40])
    else:
        a['unexpected'] = {'nested': [1, 2, 3]}
        a[key] = rng.choice(HUGE)
    return a, False


def run_case(spec):
    idx, delay, tier = spec
    v = Verdict('C12', tier, '')
    rng = rng_for(common.seed(), 'c12', idx, delay)
    src, side = storm.gen(common.seed() * 100 + idx % 4, iters=rng.choice([4, 6]), lines=rng.choice([10, 40, 120]))
    b = corpus.compile_rust(f'storm{idx % 4}_{side["lines"]}_{side["iters"]}', src, corpus.Config(tc='1.89' if idx % 2 else '1.95'), side)
    env = {'BS_VERIF_DELAY_SEED': str(delay), 'BS_VERIF_DELAY_MAX_US': '800'} if delay else None
    ctx = {'binary': b.path, 'delay': delay}
    try:
        d = Dap(extra_env=env)
    except DapDead:
        v.inconc('adapter-did-not-start')
        return v.export()
    hist = []
    state = {'frame': None, 'vref': None, 'thread': None, 'running': False, 'ended': False}

    def note_events(start):
        for m in d.log[start:]:
            if m.get('type') == 'event':
                if m.get('event') == 'stopped':
                    state['thread'] = (m.get('body') or {}).get('threadId')
                    state['running'] = False
                if m.get('event') in ('terminated', 'exited'):
                    state['ended'] = True
                    state['running'] = False

    def do(cmd, args=None, wait_resume=True, **kw):
        start = len(d.log)
        hist.append((cmd, args))
        r = d.request(cmd, args, timeout=30, **kw)
        if r is None:
            note_events(start)
            return None
        if cmd in RESUMES and r.get('success') and wait_resume:
            state['running'] = True
            d.wait_event(('stopped', 'terminated'), timeout=40, start=start)
        note_events(start)
        return r

    try:
        # ---------------------------------------------------------------- start of the session, with out-of-order variants
        pre = rng.random()
        if pre < 0.15:
            do('threads')                      # before initialize
            do('continue', {'threadId': 1})
        do('initialize', {'adapterID': 'bugstalker', 'linesStartAt1': True})
        if pre > 0.85:
            do('configurationDone')            # before launch
        if rng.random() < 0.15:
            do('launch', {'program': '/nonexistent/zq_no_such_program'})
        do('launch', {'program': b.path, 'cwd': b.dir})
        if rng.random() < 0.1:
            do('launch', {'program': b.path})  # launch twice
        do('setBreakpoints', {'source': {'path': b.src}, 'breakpoints': [{'line': side['tick_line']}] + ([{'line': side['thread_line']}] if rng.random() < 0.5 else [])})
        if rng.random() < 0.5:
            do('setFunctionBreakpoints', {'breakpoints': [{'name': 'other'}]})
        do('configurationDone')
        n = rng.randint(12, 30 if tier == 'quick' else 60)
        for _ in range(n):
            if d.closed:
                break
            k = rng.random()
            tid = state['thread'] or 1
            if k < 0.22:
                cmd = rng.choice(['continue', 'continue', 'next', 'stepIn', 'stepOut'])
                do(cmd, {'threadId': tid})
            elif k < 0.30:
                r = do('stackTrace', {'threadId': tid, 'startFrame': 0, 'levels': rng.choice([1, 5, 20])})
                fr = ((r or {}).get('body') or {}).get('stackFrames') or []
                if fr:
                    state['frame'] = fr[0].get('id')
            elif k < 0.36:
                r = do('scopes', {'frameId': state['frame'] if state['frame'] is not None else 0})
                sc = ((r or {}).get('body') or {}).get('scopes') or []
                if sc:
                    state['vref'] = sc[0].get('variablesReference')
            elif k < 0.42:
                do('variables', {'variablesReference': state['vref'] if state['vref'] is not None else 1})
            elif k < 0.47:
                do('evaluate', {'expression': rng.choice(['i', 'v', 'acc', 'nope', '*&i', 'i[', '']), 'frameId': state['frame'] or 0, 'context': 'watch'})
            elif k < 0.52:
                do('threads')
            elif k < 0.56:
                do('pause', {'threadId': tid})
            elif k < 0.62:
                # pipelined: several requests without waiting for the answers
                start = len(d.log)
                seqs = [d.send(c, a) for c, a in [('threads', None), ('stackTrace', {'threadId': tid}), ('threads', None)]]
                hist.append(('pipelined', 3))
                for s in seqs:
                    d.wait(lambda m, s=s: m.get('type') == 'response' and m.get('request_seq') == s, 20, start)
                note_events(start)
            elif k < 0.80:
                # ill-formed arguments for a random request type, followed by a canary
                cmd = rng.choice(['setBreakpoints', 'setFunctionBreakpoints', 'setInstructionBreakpoints', 'setDataBreakpoints', 'dataBreakpointInfo',
                                  'stackTrace', 'scopes', 'variables', 'setVariable', 'evaluate', 'setExpression', 'continue', 'next', 'stepIn', 'stepOut',
                                  'pause', 'readMemory', 'writeMemory', 'disassemble', 'source', 'goto', 'gotoTargets', 'restartFrame', 'completions',
                                  'breakpointLocations', 'exceptionInfo', 'terminateThreads', 'cancel', 'modules', 'loadedSources', 'stepInTargets',
                                  'setExceptionBreakpoints', 'attach', 'runInTerminal', 'zqUnknownCommand'])
                base = {'threadId': tid, 'frameId': state['frame'] or 0, 'variablesReference': state['vref'] or 1, 'expression': 'i', 'name': 'i', 'value': '1',
                        'memoryReference': '0x1000', 'count': 8, 'offset': 0, 'data': 'AAAA', 'source': {'path': b.src}, 'breakpoints': [{'line': 5}], 'line': 5,
                        'instructionCount': 4, 'text': 'va', 'column': 1, 'sourceReference': 1, 'targetId': 1}
                args, drop = mutate_args(cmd, {kk: base[kk] for kk in rng.sample(sorted(base), rng.randint(1, 5))}, rng)
                was_running = state['running']
                r = do(cmd, args, drop_arguments=drop, wait_resume=False)
                v.count('ill_formed_requests')
                if r is not None and cmd in RESUMES and r.get('success'):
                    d.wait_event(('stopped', 'terminated'), timeout=40, start=len(d.log) - 1)
                    note_events(0)
                c = do('threads')
                v.count('canaries')
                if c is None and not d.closed:
                    v.violation('c12:no-response-after-ill-formed-request', 'after an ill-formed request the adapter no longer answers',
                                dict(ctx, request=(cmd, args), history=hist[-6:]))
            elif k < 0.86:
                # a cancel that names the progress the next request will start, then that request
                ids = [((m.get('body') or {}).get('progressId') or '') for m in d.log if m.get('type') == 'event' and m.get('event') == 'progressStart']
                nxt = 1
                for pid_ in ids:
                    try:
                        nxt = max(nxt, int(pid_.rsplit('-', 1)[1]) + 1)
                    except (ValueError, IndexError):
                        pass
                do('cancel', rng.choice([{'progressId': f'bs-progress-{nxt}'}, {'progressId': f'bs-progress-{nxt}'}, {'requestId': d.seq + 2}, {'progressId': 'zq-none'}]))
                do(rng.choice(['stackTrace', 'stackTrace', 'disassemble', 'variables']), {'threadId': tid, 'levels': 50, 'memoryReference': '0x555555554000', 'instructionCount': 8,
                                                                         'variablesReference': state['vref'] or 1})
            elif k < 0.89:
                do('setBreakpoints', {'source': {'path': b.src}, 'breakpoints': [{'line': rng.choice([side['tick_line'], side['other_line'], 9999])}]})
            elif k < 0.90:
                do('readMemory', {'memoryReference': '0x555555554000', 'count': rng.choice([0, 1, 16, 4096])})
            elif k < 0.94 and not state['ended']:
                do('restart', {})
            else:
                do('configurationDone')        # repeated
        # ---------------------------------------------------------------- end of the session
        end = rng.choice(['disconnect', 'disconnect', 'terminate'])
        d.session_over_at = d.seq + 1
        do(end, {'terminateDebuggee': True} if end == 'disconnect' else {})
        d.quiesce(0.3, 3.0)
        viol = wire_check(d, ctx)
        for sig, what, det in viol:
            v.violation(sig, what, dict(det, history=hist[-14:]))
        ev = [m.get('event') for m in d.log if m.get('type') == 'event']
        v.count('wire_messages', len(d.log))
        v.count('requests', len(d.sent))
        v.count('output_events', ev.count('output'))
        v.count('stopped_events', ev.count('stopped'))
        v.count('thread_events', ev.count('thread'))
        # adjacency orders of responses and output events (how the forwarders interleaved with the session thread)
        adj = set()
        for a, bm in zip(d.log, d.log[1:]):
            ka = 'o' if a.get('event') == 'output' else a.get('type', '?')[0]
            kb = 'o' if bm.get('event') == 'output' else bm.get('type', '?')[0]
            adj.add(ka + kb)
        v.count('sessions')
        v.case(signature=('c12', tuple(sorted(adj)), tuple(c for c, _ in hist[:8])), sample=dict(ctx, requests=len(d.sent), messages=len(d.log), adjacency=sorted(adj)))
    finally:
        rc, err = d.close()
        if rc is not None and rc not in (0,) and b'panicked' in err:
            loc = err.decode('latin1')
            i = loc.find('panicked at')
            v.violation('crash:panic:' + loc[i:i + 80].split('\n')[0], 'the adapter process panicked', dict(ctx, stderr=loc[i:i + 400], history=hist[-8:]), prop='C08')
    return v.export()


def main(tier):
    rule = ('case = one adapter session with a seeded history of 12-60 requests (valid, ill-formed, repeated, out-of-order, pipelined, after exit) '
            'against a debuggee with output bursts and thread churn, under a delay seed; the recorded wire stream is checked by the offline '
            'protocol checker; distinct = distinct (adjacency kinds of response/event/output messages, request prefix)')
    V = Verdict('C12', tier, rule)
    V.minima = {'wire_messages': 3000, 'output_events': 500, 'requests': 600, 'ill_formed_requests': 60} if tier == 'quick' else \
        {'wire_messages': 15000, 'output_events': 8000, 'requests': 1200, 'ill_formed_requests': 150}
    V.assumptions = ['the monitor\'s own Content-Length framing parser is the reference for well-formed frames']
    n = 30 if tier == 'quick' else 60
    specs = [(i, 0 if i % 3 == 0 else 1000 * common.seed() + i, tier) for i in range(n)]
    # compile the four program shapes up front
    for i in range(12):
        try:
            rng = rng_for(common.seed(), 'c12', i, 0)
        except Exception:
            pass
    for res in common.safe_map(run_case, specs, procs=6):
        V.merge(res)
    return V.finish()
