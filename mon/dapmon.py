"""DAP legs of C15 (memory / variable writes through the real adapter) and C08 (hostile DAP messages)."""
import base64
import os
import re
import sys

sys.path.insert(0, os.path.dirname(os.path.dirname(os.path.abspath(__file__))))
from gen import mem, bpset  # noqa: E402
from . import common, corpus  # noqa: E402
from .common import Verdict, rng_for  # noqa: E402
from .dap import Dap, DapDead  # noqa: E402

M64 = (1 << 64) - 1


def proc_read(pid, addr, n):
    try:
        with open(f'/proc/{pid}/mem', 'rb', buffering=0) as f:
            f.seek(addr)
            return f.read(n)
    except OSError:
        return None


def stop_at(d, b, fn=None, line=None):
    d.request('initialize', {'adapterID': 'bugstalker'})
    r = d.request('launch', {'program': b.path, 'cwd': b.dir})
    if r is None or not r.get('success'):
        return None
    if fn:
        d.request('setFunctionBreakpoints', {'breakpoints': [{'name': fn}]})
    if line:
        d.request('setBreakpoints', {'source': {'path': b.src}, 'breakpoints': [{'line': line}]})
    n = len(d.log)
    d.request('configurationDone')
    ev = d.wait_event(('stopped', 'terminated'), timeout=40, start=n)
    if ev is None or ev.get('event') != 'stopped':
        return None
    return (ev.get('body') or {}).get('threadId')


def c15_memory_case(spec):
    idx, tier = spec
    v = Verdict('C15', tier, '')
    rng = rng_for(common.seed(), 'c15dap', idx)
    src, side = mem.gen(common.seed() * 100 + idx)
    b = corpus.compile_rust(f'mem{idx}', src, corpus.Config(tc='1.89' if idx % 2 else '1.95'), side)
    ctx = {'binary': b.path, 'leg': 'dap-memory'}
    try:
        d = Dap()
    except DapDead:
        v.inconc('adapter-did-not-start')
        return v.export()
    try:
        tid = stop_at(d, b, fn='stop_here')
        if tid is None:
            v.inconc('dap-stop-not-reached')
            return v.export()
        # the debuggee's pid is the thread id of its main thread
        pid = tid
        raw = proc_read(pid, b.sym_addr('REGION'), 8)
        if raw is None:
            v.inconc('cannot-read-debuggee-memory')
            return v.export()
        region = int.from_bytes(raw, 'little')
        target = b.sym_addr('TARGET')
        n_ops = 120 if tier == 'quick' else 1500
        for _ in range(n_ops):
            where = rng.choice(['region', 'region', 'static'])
            if where == 'region':
                off = rng.choice([rng.randrange(0, 8192 - 40), 4096 - rng.randint(1, 12), rng.randrange(0, 64), 8192 - rng.randint(8, 40)])
                n = rng.choice([1, 2, 3, 4, 5, 7, 8, 9, 12, 15, 16, 17, 24, 31])
                n = min(n, 8192 - off)
                addr = region + off
            else:
                off = rng.randrange(0, 12)
                n = rng.choice([1, 2, 3, 4, 7, 8, 9, 12])
                addr = target + off
            data = bytes(rng.getrandbits(8) for _ in range(n))
            lo = addr - 16 if where == 'static' else max(region, addr - 16)
            hi = addr + n + 16 if where == 'static' else min(region + 8192, addr + n + 16)
            before = proc_read(pid, lo, hi - lo)
            r = d.request('writeMemory', {'memoryReference': hex(addr), 'data': base64.b64encode(data).decode()})
            after = proc_read(pid, lo, hi - lo)
            v.count('dap_memory_writes')
            if r is None or not r.get('success'):
                v.violation('c15:dap-write-fails-on-mapped-range', 'writeMemory into mapped memory failed', dict(ctx, offset=off, n=n, reply=r))
                continue
            exp = bytearray(before)
            exp[addr - lo:addr - lo + n] = data
            if bytes(exp) != after:
                diff = [i + lo - addr for i in range(len(after)) if after[i] != exp[i]]
                outside = [x for x in diff if x < 0 or x >= n]
                v.violation('c15:dap-write-changes-other-bytes' if outside else 'c15:dap-write-stores-wrong-bytes',
                            'a writeMemory of n bytes at address a changed something other than exactly [a, a+n)',
                            dict(ctx, where=where, offset=off, alignment=addr % 8, n=n, wrong_at_relative_offsets=diff[:16]))
            # read back through the adapter
            rr = d.request('readMemory', {'memoryReference': hex(lo), 'count': hi - lo})
            v.count('dap_memory_reads')
            got = base64.b64decode((((rr or {}).get('body') or {}).get('data')) or '')
            if rr is None or not rr.get('success') or got != after:
                v.violation('c15:dap-read-returns-wrong-bytes', 'readMemory returned bytes different from what the process holds',
                            dict(ctx, offset=lo - region, n=hi - lo, got=got.hex()[:64], truth=(after or b'').hex()[:64], reply_ok=bool(rr and rr.get('success'))))
            v.case(signature=('dapmem', where, addr % 8, min(n, 17)), n=1)
    finally:
        rc, err = d.close()
    return v.export()


def c15_variable_case(spec):
    idx, tier = spec
    v = Verdict('C15', tier, '')
    rng = rng_for(common.seed(), 'c15var', idx)
    src, side = bpset.gen(common.seed(), iters=4)
    b = corpus.compile_rust('bpset4', src, corpus.Config(tc='1.89' if idx % 2 else '1.95'), side)
    native = corpus.native_run(b)
    ctx = {'binary': b.path, 'leg': 'dap-setVariable'}
    try:
        d = Dap()
    except DapDead:
        v.inconc('adapter-did-not-start')
        return v.export()
    try:
        tid = stop_at(d, b, line=side['lines']['L_sv'])
        if tid is None:
            v.inconc('dap-stop-not-reached')
            return v.export()
        st = d.request('stackTrace', {'threadId': tid, 'levels': 1})
        fid = (((st or {}).get('body') or {}).get('stackFrames') or [{}])[0].get('id')
        sc = d.request('scopes', {'frameId': fid})
        refs = [s_.get('variablesReference') for s_ in (((sc or {}).get('body') or {}).get('scopes') or [])]
        newv = rng.choice([0, 1, 255, 65536, 2 ** 32 - 1, 2 ** 63, 2 ** 64 - 1, rng.getrandbits(64)])
        how = rng.choice(['setVariable', 'setExpression'])
        zref = None
        zmem = None
        for ref in refs:
            vs = d.request('variables', {'variablesReference': ref})
            for var in (((vs or {}).get('body') or {}).get('variables') or []):
                if var.get('name') == 'z':
                    zref = ref
                    zmem = var.get('memoryReference')
        if zref is None:
            v.inconc('variable-z-not-listed')
            return v.export()
        around = None
        if zmem:
            try:
                za = int(zmem, 16)
                around = (za, proc_read(tid, za - 16, 40))
            except ValueError:
                pass
        if how == 'setVariable':
            r = d.request('setVariable', {'variablesReference': zref, 'name': 'z', 'value': str(newv)})
        else:
            r = d.request('setExpression', {'expression': 'z', 'value': str(newv), 'frameId': fid})
        v.count('dap_variable_writes')
        if r is None or not r.get('success'):
            v.violation(f'c15:{how}-fails', f'{how} of a u64 local failed', dict(ctx, value=newv, reply=r))
            return v.export()
        vs = d.request('variables', {'variablesReference': zref})
        back = [var.get('value') for var in (((vs or {}).get('body') or {}).get('variables') or []) if var.get('name') == 'z']
        if not back or re.sub(r'[^0-9]', '', str(back[0]).split('(')[-1]) != str(newv):
            v.violation(f'c15:{how}-read-back-differs', 'a later read of the variable does not return the written value', dict(ctx, written=newv, read=back))
        if around and around[1] is not None:
            za, before = around
            after = proc_read(tid, za - 16, 40)
            exp = bytearray(before)
            exp[16:24] = newv.to_bytes(8, 'little')
            if after is not None and bytes(exp) != after:
                v.violation(f'c15:{how}-touches-neighbouring-data', 'setting a variable changed bytes outside the variable', dict(ctx, written=newv))
            v.count('dap_variable_neighbours_checked')
        # the program itself must see the new value: sv(5) re-reads z from memory and returns (z + 5) * 3
        for bp_req in (('setBreakpoints', {'source': {'path': b.src}, 'breakpoints': []}),):
            d.request(*bp_req)
        for _ in range(40):     # (a breakpoint created before start cannot be removed: C13 known finding - just continue through it)
            n = len(d.log)
            d.request('continue', {'threadId': tid})
            ev = d.wait_event(('stopped', 'terminated'), timeout=40, start=n)
            if ev is None or ev.get('event') == 'terminated':
                break
        d.quiesce(0.3, 2.0)
        outs = ''.join(((m.get('body') or {}).get('output') or '') for m in d.log if m.get('type') == 'event' and m.get('event') == 'output')
        m_ = re.search(r'acc=(\d+)', outs)
        nat = int(re.search(r'acc=(\d+)', native[0].decode()).group(1))
        want = (nat - (((5 ^ 1) + 5) * 3) + ((newv + 5) & M64) * 3) & M64
        if not m_:
            # the program's last line did not arrive (slow machine, output forwarder lag): nothing to judge
            v.inconc('program-output-not-captured', dict(ctx, written=newv))
            return v.export()
        v.count('dap_variable_effects_compared')
        if int(m_.group(1)) != want:
            v.violation(f'c15:{how}-not-seen-by-program', 'the program did not compute with the value written through the adapter',
                        dict(ctx, written=newv, program_printed=(m_.group(1) if m_ else None), expected=want))
        v.case(signature=('dapvar', how, newv.bit_length()), n=1)
    finally:
        d.close()
    return v.export()


def c15_leg(V, tier):
    n = 4 if tier == 'quick' else 40
    specs = [(i, tier) for i in range(n)]
    for res in common.safe_map(c15_memory_case, specs, procs=4):
        V.merge(res)
    n2 = 8 if tier == 'quick' else 120
    for res in common.safe_map(c15_variable_case, [(i, tier) for i in range(n2)], procs=4):
        V.merge(res)
