"""C01: breakpoint stops are exactly the projection of the real execution.

Oracle: reference single-step trace T of the same binary. With active address set B and cursor k,
the next stop must be the first j > k with T[j].pc in B, reported at exactly that (pc, rsp, TICK);
if there is none the next event must be the exit (with the native exit code and output).
"""
import os

from . import common, flowlib
from .common import Verdict, rng_for
from .session import Session, Crash, reloc


def pick_requests(prep, rng, n):
    side = prep.b.side
    ex = prep.stmt_addrs(executed_only=True)
    nex = prep.stmt_addrs(executed_only=False)
    bp = prep.trace.by_pc()
    hot = [a for a in ex if len(bp[a]) > 3]
    src = os.path.basename(prep.b.src)
    fnames = [f['name'] for f in side['funcs'] if f['kind'] != 'main'] + ['gen_id', 'mix', 'apply', 'area', 'main']
    out = []
    insns = prep.insn_addrs()
    for _ in range(n):
        k = rng.random()
        if k < 0.12:
            # two breakpoints on neighbouring instructions (closer than one machine word)
            import bisect
            for _try in range(20):
                a = rng.choice(insns)
                i = bisect.bisect_right(insns, a)
                if a in bp and i < len(insns) and insns[i] - a < 8 and insns[i] in bp:
                    pair = [('addr', a), ('addr', insns[i])]
                    rng.shuffle(pair)
                    out.extend(pair)
                    break
        elif k < 0.35 and ex:
            out.append(('addr', rng.choice(ex)))
        elif k < 0.45 and hot:
            out.append(('addr', rng.choice(hot)))
        elif k < 0.52 and nex:
            out.append(('addr', rng.choice(nex)))
        elif k < 0.80:
            f = rng.choice(side['funcs'])
            out.append(('line', (rng.choice([src, src, prep.b.src]), rng.choice(f['stmt_lines']))))
        else:
            nm = rng.choice(fnames)
            if rng.random() < 0.3:
                nm = prep.b.name + '::' + nm if nm not in ('area',) else nm
            out.append(('fn', nm))
    return out


class Model:
    def __init__(self, prep):
        self.prep = prep
        self.B = {}       # relocated addr -> {'num','req','line'}
        self.reqs = []    # active requests
        self.n_add = 0
        self.n_remove = 0
        self.coincident = False

    def add(self, S, kind, arg, v):
        b = self.prep.b
        if kind == 'addr':
            r = S.cmd('break_addr', addr=arg)
            views = [r['ok']] if 'ok' in r else []
        elif kind == 'line':
            r = S.cmd('break_line', file=arg[0], line=arg[1])
            views = r.get('ok') or []
        else:
            r = S.cmd('break_fn', name=arg)
            views = r.get('ok') or []
        if 'ok' not in r:
            return None
        addrs = []
        for vw in views:
            a = reloc(b, vw['addr'])
            addrs.append(a)
            if a in self.B and self.B[a]['num'] != vw['num']:
                # two requests resolved to one address under two breakpoint numbers (before the program runs an address breakpoint
                # and a line breakpoint are kept under different address forms): which number a stop there reports, and what removing
                # one of them leaves behind, is not stated by the property and not modelled here
                self.coincident = True
            self.B[a] = {'num': vw['num'], 'req': len(self.reqs), 'kind': kind,
                         'line': (vw.get('place') or {}).get('line')}
        req = {'kind': kind, 'arg': arg, 'addrs': addrs, 'id': len(self.reqs), 'active': True}
        self.reqs.append(req)
        self.n_add += 1
        v.count('bp_add_' + kind)
        return req

    def remove(self, S, req, rng, v):
        """remove a request through a randomly chosen interface; the model drops its addresses"""
        kind = req['kind']
        how = rng.choice(['same', 'addr', 'num'])
        live = [a for a in req['addrs'] if a in self.B]
        removed_views = []
        if how == 'same' and kind == 'line':
            r = S.cmd('remove_line', file=req['arg'][0], line=req['arg'][1])
            removed_views = r.get('ok') or []
        elif how == 'same' and kind == 'fn':
            r = S.cmd('remove_fn', name=req['arg'])
            removed_views = r.get('ok') or []
        elif how == 'num':
            for a in live:
                r = S.cmd('remove_num', num=self.B[a]['num'])
                if r.get('ok'):
                    removed_views.append(r['ok'])
        else:
            for a in live:
                if S.started:
                    r = S.cmd('remove_addr', addr=a)
                else:
                    # before start the registry is keyed by the address form the user gave
                    if kind == 'addr':
                        r = S.cmd('remove_addr', addr=a)
                    else:
                        r = S.cmd('remove_addr', addr=a - self.prep.b.base, **{'global': True})
                if r.get('ok'):
                    removed_views.append(r['ok'])
        got = sorted(reloc(self.prep.b, x['addr']) for x in removed_views)
        if got != sorted(live):
            v.violation(f'c01:remove-incomplete:{kind}:{how}',
                        'removing a breakpoint request did not remove exactly its locations',
                        {'request': req, 'live': live, 'removed': got, 'history': S.history[-30:]})
        for a in live:
            self.B.pop(a, None)
        req['active'] = False
        self.n_remove += 1
        v.count('bp_remove_' + how)


def run_case(spec):
    idx, hist, cfg, tier = spec
    v = Verdict('C01', tier, '')
    try:
        prep = flowlib.prepare(idx, validate=False, **cfg)
    except Exception as e:  # compile/trace failure is a machinery problem
        v.inconc('prepare-failed', str(e))
        return v.export()
    okk, why = prep.oracle_ok()
    if not okk:
        v.inconc('oracle-unusable', why)
        return v.export()
    rng = rng_for(common.seed(), 'c01', idx, hist, sorted(cfg.items()))
    T = prep.trace
    S = Session(prep.b, v)
    M = Model(prep)
    stops = 0
    kinds = set()
    pattern = []
    try:
        S.launch()
        for kind, arg in pick_requests(prep, rng, rng.randint(1, 5)):
            if M.add(S, kind, arg, v):
                kinds.add(kind)
        if M.coincident:
            v.inconc('two-requests-at-one-address-under-two-numbers-not-modelled')
            return v.export()
        # occasionally remove one again before the program starts
        if rng.random() < 0.3 and M.reqs:
            req = rng.choice([r for r in M.reqs if r['active']])
            M.remove(S, req, rng, v)
            pattern.append('R0')
        k = -1
        max_stops = rng.choice([5, 15, 40, 80])
        r = S.cmd('start')
        S.started = True
        while True:
            okv = r.get('ok')
            if okv is None:
                v.violation('c01:continue-error', f'continue/start returned an error: {r.get("err")}',
                            {'reply': r, 'history': S.history[-30:]})
                break
            j = T.next_at(M.B.keys(), k)
            if okv.get('stop') == 'exit':
                if j is not None:
                    a = T.pc[j]
                    v.violation(f'c01:missed-arrival:{M.B[a]["kind"]}',
                                'the program ran to exit although execution reaches an active breakpoint',
                                {'expected_index': j, 'pc': a, 'cursor': k, 'bp': M.B[a], 'history': S.history[-40:],
                                 'binary': prep.b.path, 'src': prep.b.src, 'cfg': cfg})
                else:
                    v.count('exits_checked')
                    out, _ = S.output(expect_stdout=prep.native[0])
                    if okv.get('code') != prep.native[2] or out != prep.native[0]:
                        v.violation('c02:output-or-exit-differs', 'debuggee output or exit status differs from the native run',
                                    {'exit': okv.get('code'), 'native_exit': prep.native[2], 'out': out[-200:].decode('latin1'),
                                     'native_out': prep.native[0][-200:].decode('latin1'), 'history': S.history[-40:]}, prop='C02')
                break
            if okv.get('stop') != 'breakpoint':
                v.violation(f'c01:unexpected-stop-kind:{okv.get("stop")}', 'continue ended with a stop that is neither breakpoint nor exit',
                            {'reply': okv, 'history': S.history[-30:]})
                break
            stops += 1
            pc = okv['pc']
            regs = (r.get('mon') or {}).get('regs', {}).get(str(okv['tid'])) or {}
            rsp = regs.get('rsp')
            tick = S.tick()
            v.count('stops_checked')
            detail = {'reported': okv, 'rsp': rsp, 'tick': tick, 'cursor': k, 'expected_index': j,
                      'expected': None if j is None else {'pc': T.pc[j], 'rsp': T.rsp[j], 'tick': T.tick[j]},
                      'active': {hex(a): b for a, b in M.B.items()}, 'history': S.history[-40:],
                      'binary': prep.b.path, 'src': prep.b.src, 'cfg': cfg}
            if pc not in M.B:
                v.violation('c01:stop-at-non-breakpoint', 'stopped at an address where no breakpoint is active', detail)
                break
            bkind = M.B[pc]['kind']
            if j is None:
                v.violation(f'c01:spurious-stop:{bkind}', 'stopped although execution does not reach any active breakpoint again', detail)
                break
            if (T.pc[j], T.rsp[j], T.tick[j]) != (pc, rsp, tick):
                jj = T.locate(pc, rsp, tick, after=k)
                if jj is None:
                    cls = 'position-not-in-execution'
                elif jj > j:
                    cls = 'missed-arrival'
                else:
                    cls = 'out-of-order'
                detail['located_index'] = jj
                v.violation(f'c01:{cls}:{bkind}', 'the reported stop is not the next arrival at an active breakpoint in the real execution', detail)
                break
            k = j
            # hook event
            evs = [e for e in r.get('ev', []) if e['ev'] == 'breakpoint']
            if len(evs) != 1 or evs[0]['pc'] != pc or evs[0]['num'] != M.B[pc]['num']:
                v.violation('c01:hook-event-mismatch', 'on_breakpoint event missing, duplicated or with wrong pc/number',
                            dict(detail, events=r.get('ev')))
                break
            if M.B[pc]['line'] is not None and (evs[0].get('place') or {}).get('line') != M.B[pc]['line']:
                v.violation('c01:hook-place-line', 'line reported at the stop differs from the line of the breakpoint',
                            dict(detail, events=r.get('ev')))
                break
            # edits
            if stops >= max_stops:
                for req in [q for q in M.reqs if q['active']]:
                    M.remove(S, req, rng, v)
                pattern.append('RALL')
            else:
                e = rng.random()
                if e < 0.25:
                    act = [q for q in M.reqs if q['active']]
                    if act:
                        M.remove(S, rng.choice(act), rng, v)
                        pattern.append('R')
                elif e < 0.5:
                    for kind, arg in pick_requests(prep, rng, rng.randint(1, 2)):
                        if M.add(S, kind, arg, v):
                            kinds.add(kind)
                    pattern.append('A')
                elif e < 0.55:
                    # a breakpoint right at / next to the current pc
                    cand = [a for a in prep.insn_addrs() if 0 < a - pc < 12] or [a for a in prep.stmt_addrs() if 0 <= a - pc < 40]
                    if cand:
                        M.add(S, 'addr', rng.choice(cand), v)
                        pattern.append('Ahere')
            if M.coincident:
                v.inconc('two-requests-at-one-address-under-two-numbers-not-modelled')
                break
            # inspection between stops must not change where the program stops next: select frames, look at the stack,
            # read variables, disassemble (the user is entitled to any of these before continuing)
            if rng.random() < 0.35:
                for _ in range(rng.randint(1, 3)):
                    q = rng.random()
                    if q < 0.4:
                        S.cmd('frame', num=rng.choice([0, 1, 1, 2, 3]), mon=False)
                        pattern.append('F')
                    elif q < 0.6:
                        S.cmd('backtrace', mon=False)
                    elif q < 0.8:
                        S.cmd('locals', mon=False)
                    elif q < 0.9:
                        S.cmd('frame_info', mon=False)
                    else:
                        S.cmd('disasm', mon=False)
                v.count('inspections_between_stops')
            r = S.cmd('cont')
        v.case(signature=('c01', idx, tuple(sorted(cfg.items())), tuple(sorted(kinds)), min(stops, 8), tuple(pattern[:6])),
               sample={'program': os.path.basename(prep.b.src), 'cfg': cfg, 'stops': stops, 'adds': M.n_add,
                       'removes': M.n_remove, 'edit_pattern': pattern[:12],
                       'requests': [(q['kind'], q['arg'] if q['kind'] != 'addr' else hex(q['arg'])) for q in M.reqs][:8]})
        v.count('histories')
        v.count('bp_edits', M.n_add + M.n_remove)
    except Crash as c:
        v.violation(f'crash:{c.kind}:{(c.info or {}).get("panic", {}).get("loc") if c.kind == "panic" else (c.info or {}).get("cmd")}',
                    f'debugger {c.kind} during a breakpoint history', {'info': c.info, 'history': S.history[-40:],
                                                                      'binary': prep.b.path}, prop='C08')
    finally:
        S.close()
    return v.export()


def main(tier):
    rule = ('case = (generated flow program, build config, seeded history of breakpoint add/remove/continue); every stop is '
            'compared with the next arrival in the reference single-step trace at (pc, rsp, TICK); distinct = distinct '
            '(program, config, request kinds, stop-count bucket, edit pattern)')
    V = Verdict('C01', tier, rule)
    V.minima = {'stops_checked': 150, 'bp_edits': 20, 'exits_checked': 5} if tier == 'quick' else \
        {'stops_checked': 1200, 'bp_edits': 600, 'exits_checked': 100}
    V.assumptions = ['generated programs are deterministic and single-threaded (trace validated twice in thorough tier)',
                     'reference tracer classifies instructions by ptrace single-step only',
                     'breakpoints only on instruction boundaries taken from the independent line-table decode']
    if tier == 'quick':
        cfgs = [dict(tc='1.89', opt=0, dwarf=4, pie=True), dict(tc='1.95', opt=0, dwarf=5, pie=True)]
        specs = [(i, h, cfgs[i % 2], tier) for i in range(6) for h in range(8)]
    else:
        cfgs = [dict(tc=tc, opt=o, dwarf=d, pie=True) for tc in ('1.89', '1.95') for o in (0, 1) for d in (4, 5)]
        specs = [(i, h, cfgs[(i + h) % len(cfgs)], tier) for i in range(30) for h in range(8)]
    # prepare programs first (compile + trace in parallel), then run histories
    progs = sorted({(s[0], tuple(sorted(s[2].items())), tier == 'thorough') for s in specs})
    common.parallel_map(_prep, progs)
    for res in common.safe_map(run_case, specs):
        V.merge(res)
    return V.finish()


def _prep(p):
    idx, cfg, validate = p
    try:
        flowlib.prepare(idx, validate=validate, **dict(cfg))
    except Exception as e:
        return str(e)
    return None
