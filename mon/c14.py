"""C14: the debug registers of every thread always encode exactly the active watchpoints.

Live leg: random add / remove (by number, address, expression) / continue / restart histories over six
candidate locations of multi-thread programs whose threads are created while the history runs. After every
command the monitor reads DR0-DR7 of every kernel thread with its own PTRACE_PEEKUSER and decodes them with the
SDM layout (enable bits 0-7, RW at 16+4i, LEN at 18+4i; LEN 00/01/11/10 = 1/2/4/8 bytes): the decoded set of
enabled slots must equal Debugger::watchpoint_list() and the monitor's own model, on every thread, including
threads born after the watchpoint; refused requests (fifth, same address, bad size) must leave registers, list
and text unchanged; a watchpoint on a local must be gone (list and registers) after its end-of-scope stop;
watchpoints on globals must be back in the registers after a restart.
Pure leg: DebugControlRegister::configure_bp/set_dr against the SDM formula over all 2^20 prior images x slot x
condition x size (harness/puremon).
Trigger leg: hardware data breakpoints do not fire in this VM (probe), so "every write stops once" is
inconclusive here and recorded as such.
"""
import json
import subprocess

from . import common, mtlib
from .common import Verdict, rng_for, PUREMON, REFTRACE
from .session import Session, Crash

MON = {'thr': False, 'dr': True, 'text': True, 'regs': False}
TMO = 60
LEN = {0: 1, 1: 2, 3: 4, 2: 8}
RW = {1: 'w', 3: 'rw'}


def decode(dr):
    """set of (address, length, condition) of the enabled slots of one thread's register image"""
    out = set()
    dr7 = dr[7]
    for i in range(4):
        if (dr7 >> (2 * i)) & 3:
            rw = (dr7 >> (16 + 4 * i)) & 3
            ln = (dr7 >> (18 + 4 * i)) & 3
            out.add((dr[i], LEN[ln], RW.get(rw, f'?{rw}')))
    return out


def run_case(spec):
    idx, shape, tier = spec
    v = Verdict('C14', tier, '')
    P = mtlib.program(idx, **shape)
    rng = rng_for(common.seed(), 'c14', idx, sorted(shape.items()))
    S = Session(P.b, v, mon=MON, timeout=TMO)
    ctx = {'binary': P.b.path, 'shape': shape}
    model = {}        # num -> (addr, size, cond, kind)   kind: 'mem' | 'global-expr' | 'local-expr'
    ops = []
    cands = [P.ctr + 8 * j for j in range(6)]
    phase_addr, go_addr = P.phase, P.go

    def check(r, what):
        """compare registers of every thread, the debugger's list and the model"""
        m = r.get('mon') or {}
        drs = m.get('dr') or {}
        wps = m.get('wps')
        if wps is None or not drs:
            return
        listed = {(w['addr'], int(str(w['size']).rstrip('b')), w['cond']) for w in wps}
        want = {(a, s, c) for (a, s, c, k) in model.values()}
        S.tolerate_extra_int3 = bool(local_wps)
        v.count('register_images_decoded', len(drs))
        v.count('commands_checked')
        if listed != want:
            v.violation(f'c14:list-differs-from-model:{what}', 'watchpoint_list() differs from the set of watchpoints added and not removed',
                        dict(ctx, listed=sorted(listed), model=sorted(want), ops=ops[-12:]))
            return False
        images = {}
        for tid, dr in drs.items():
            if dr is None:
                continue
            images[tid] = decode(dr)
        bad = {tid: sorted(img) for tid, img in images.items() if img != want}
        if bad:
            some = next(iter(bad.items()))
            stale = any(len(img) > len(want) for img in images.values())
            kind = 'extra-or-stale-slot' if stale else ('thread-without-image' if any(not img for img in images.values()) and want else 'wrong-encoding')
            v.violation(f'c14:registers-differ-from-watchpoints:{kind}:{what}',
                        'the debug registers of a thread do not encode exactly the active watchpoint set',
                        dict(ctx, thread=some[0], decoded=some[1], expected=sorted(want), threads=len(images), bad_threads=len(bad),
                             raw=drs.get(some[0]), ops=ops[-12:]))
            return False
        if len(images) > 1:
            v.count('multi_thread_images')
        return True

    try:
        S.launch()
        r = S.cmd('break_line', file=P.src, line=P.side['site_line'])
        if len(r.get('ok') or []) != 1:
            v.inconc('site-breakpoint-failed')
            return v.export()
        r = S.cmd('start', timeout=TMO)
        n_ops = rng.randint(20, 40 if tier == 'quick' else 70)
        local_wps = {}        # watchpoint number -> local name (several locals of one scope share one end-of-scope breakpoint)
        restarted_after_exit = False
        for step in range(n_ops):
            if v.violations:
                break
            if S.exited:
                # the program ran to its end: start it again once - watchpoints on globals and raw addresses must be armed again
                if restarted_after_exit or not any(kk != 'local-expr' for (a, s_, c, kk) in model.values()):
                    break
                restarted_after_exit = True
                ops.append('restart-after-exit')
                for num in [n_ for n_, (a, s_, c, kk) in model.items() if kk == 'local-expr']:
                    model.pop(num)
                local_wps = {}
                r = S.cmd('restart', timeout=TMO)
                if 'ok' not in r:
                    break
                v.count('restarts_after_exit')
                if not S.exited:
                    check(r, 'after-restart-after-exit')
                continue
            k = rng.random()
            if k < 0.34:
                # ---- add
                kind = rng.choice(['mem', 'mem', 'mem', 'global-expr', 'local-expr'])
                cond = rng.choice(['w', 'rw'])
                if kind == 'mem':
                    size = rng.choice([1, 2, 4, 8])
                    addr = rng.choice(cands) + (rng.randrange(0, 8, size) if size < 8 else 0)
                    ops.append(f'add mem {addr:#x} {size} {cond}')
                    r = S.cmd('watch_mem', addr=addr, size=size, cond=cond)
                    expect_refusal = len(model) >= 4 or any(a == addr for (a, s, c, kk) in model.values())
                elif kind == 'global-expr':
                    name, addr = rng.choice([('PHASE', phase_addr), ('GO', go_addr)])
                    size = 8
                    ops.append(f'add expr {name} {cond}')
                    r = S.cmd('watch_expr', expr=name, cond=cond)
                    expect_refusal = len(model) >= 4
                else:
                    free_names = [n_ for n_ in ('k', 'acc', 'x') if n_ not in local_wps.values()]
                    if not free_names:
                        continue
                    lname = rng.choice(free_names)
                    # a local of `worker` (frame 1 when stopped in site): watch it; it must go away at the end of its scope
                    S.cmd('frame', num=1, mon=False)
                    ops.append(f'add local expr {lname} {cond}')
                    S.tolerate_extra_int3 = True
                    r = S.cmd('watch_expr', expr=lname, cond=cond)
                    S.cmd('frame', num=0, mon=False)
                    if 'ok' not in r:
                        # a refused request must not leave its end-of-scope companion breakpoint in the text
                        S.tolerate_extra_int3 = bool(local_wps)
                        S.cmd('bps', mon={'thr': False, 'dr': False, 'text': True, 'regs': False})
                    size = 8
                    addr = (r.get('ok') or {}).get('addr')
                    expect_refusal = len(model) >= 4 or (addr is not None and any(a == addr for (a, s, c, kk) in model.values()))
                if 'ok' in r:
                    w = r['ok']
                    if expect_refusal:
                        v.violation('c14:request-accepted-that-must-be-refused', 'a fifth watchpoint or a second one on the same address was accepted',
                                    dict(ctx, reply=w, model=sorted(model.values()), ops=ops[-8:]))
                        break
                    model[w['num']] = (w['addr'], int(str(w['size']).rstrip('b')), w['cond'], kind)
                    if kind == 'local-expr':
                        local_wps[w['num']] = lname
                    v.count('adds')
                else:
                    v.count('refusals')
                    if (not expect_refusal and kind == 'mem') or (kind == 'global-expr' and len(model) < 4 and
                                                                  'observed by another' not in str(r.get('err'))):
                        v.violation('c14:request-refused-that-must-be-accepted', 'a watchpoint request on a free slot and a fresh address was refused',
                                    dict(ctx, err=r.get('err'), model=sorted(model.values()), ops=ops[-8:]))
                        break
                check(r, 'after-add' if 'ok' in r else 'after-refusal')
            elif k < 0.40:
                # ---- requests that must be refused without side effects
                which = rng.choice(['bad-size', 'misaligned'])
                if which == 'bad-size':
                    ops.append('add bad size 3')
                    r = S.cmd('watch_mem', addr=rng.choice(cands), size=3, cond='w')
                else:
                    ops.append('add misaligned 8-byte')
                    r = S.cmd('watch_mem', addr=rng.choice(cands) + 3, size=8, cond='w')
                v.count('refusals')
                if 'ok' in r:
                    if which == 'misaligned':
                        # accepted by the debugger although no processor can watch it
                        w = r['ok']
                        model[w['num']] = (w['addr'], int(str(w['size']).rstrip('b')), w['cond'], 'mem')
                    else:
                        v.violation('c14:bad-size-accepted', 'a watchpoint of an impossible size was accepted', dict(ctx, reply=r['ok']))
                        break
                check(r, f'after-{which}')
            elif k < 0.62:
                # ---- remove
                if not model:
                    continue
                num = rng.choice(sorted(model))
                addr, size, cond, kind = model[num]
                how = rng.choice(['num', 'addr'] + (['expr'] if kind == 'global-expr' else []))
                ops.append(f'remove {how} #{num}')
                if how == 'num':
                    r = S.cmd('unwatch_num', num=num)
                elif how == 'addr':
                    r = S.cmd('unwatch_addr', addr=addr)
                else:
                    r = S.cmd('unwatch_expr', expr='PHASE' if addr == phase_addr else 'GO')
                if r.get('ok'):
                    model.pop(num, None)
                    local_wps.pop(num, None)
                    v.count('removes')
                    if kind == 'local-expr' and not local_wps:
                        # the last local watchpoint is gone: its end-of-scope breakpoint must be gone from the text too
                        S.tolerate_extra_int3 = False
                        S.cmd('bps', mon={'thr': False, 'dr': False, 'text': True, 'regs': False})
                elif how == 'expr':
                    v.count('remove_by_expression_found_nothing')     # the watchpoint simply stays: state remains consistent
                else:
                    v.violation('c14:remove-failed', 'removing an existing watchpoint failed', dict(ctx, reply=str(r)[:200], ops=ops[-8:]))
                    break
                check(r, 'after-remove')
            elif k < 0.95:
                ops.append('cont')
                r = S.cmd('cont', timeout=TMO)
                okv = r.get('ok') or {}
                if okv.get('stop') == 'watchpoint':
                    # only the end-of-scope companion can stop here (hardware does not fire in this VM)
                    for e in r.get('ev', []):
                        if e.get('ev') == 'watchpoint' and e.get('end_of_scope'):
                            model.pop(e['num'], None)
                            local_wps.pop(e['num'], None)
                            v.count('end_of_scope_stops')
                        elif e.get('ev') == 'watchpoint':
                            v.count('hardware_watchpoint_stops')
                if not S.exited:
                    check(r, 'after-continue')
            else:
                ops.append('restart')
                r = S.cmd('restart', timeout=TMO)
                if 'ok' not in r:
                    break
                v.count('restarts')
                # locals are dropped by a restart, globals and raw addresses stay
                for num in [n for n, (a, s, c, kk) in model.items() if kk == 'local-expr']:
                    model.pop(num)
                local_wps = {}
                if not S.exited:
                    check(r, 'after-restart')
        # ---- epilogue: let the program run to its end and start it again: watchpoints on globals / raw addresses stay
        #      active and must be armed in the new process (on every thread that appears)
        if not v.violations and not restarted_after_exit and any(kk != 'local-expr' for (a, s_, c, kk) in model.values()) and rng.random() < 0.7:
            for bp in (S.w.cmd('bps').get('ok') or []):
                S.w.cmd('remove_num', num=bp['num'])
            guard = 0
            while not S.exited and guard < 30:
                guard += 1
                r = S.cmd('cont', timeout=TMO)
                for e in r.get('ev', []):
                    if e.get('ev') == 'watchpoint' and e.get('end_of_scope'):
                        model.pop(e['num'], None)
                        local_wps.pop(e['num'], None)
                if 'ok' not in r:
                    break
            if S.exited:
                for num in [n_ for n_, (a, s_, c, kk) in model.items() if kk == 'local-expr']:
                    model.pop(num)
                local_wps = {}
                ops.append('run-to-exit, restart')
                S.cmd('break_line', file=P.src, line=P.side['site_line'], mon=False)
                r = S.cmd('restart', timeout=TMO)
                if 'ok' in r and not S.exited:
                    v.count('restarts_after_exit')
                    check(r, 'after-restart-after-exit')
                    r = S.cmd('cont', timeout=TMO)     # a few more stops: threads created in the new process must inherit the image
                    if not S.exited:
                        check(r, 'after-restart-after-exit')
        v.case(signature=('c14', idx, tuple(o.split()[0] + o.split()[1] if len(o.split()) > 1 else o for o in ops[:10])),
               sample=dict(ctx, ops=ops[:30], final_model=sorted(model.values())))
        v.count('histories')
    except Crash as c:
        loc = (c.info or {}).get('panic', {}).get('loc') if c.kind == 'panic' else (c.info or {}).get('cmd')
        if c.kind == 'hang':
            v.inconc('watchdog', dict(ctx, info=c.info, ops=ops[-8:]))
        else:
            v.violation(f'crash:{c.kind}:{loc}', f'debugger {c.kind} during a watchpoint history', dict(ctx, info=c.info, ops=ops[-10:]), prop='C08')
    finally:
        S.close()
    return v.export()


def _prep(p):
    try:
        mtlib.program(p[0], **dict(p[1]))
    except Exception as e:
        return str(e)


def main(tier):
    rule = ('case = one seeded history of 20-70 add / refuse / remove / continue / restart commands over six candidate locations of a '
            'multi-thread program; after every command DR0-7 of every kernel thread are read with PTRACE_PEEKUSER, decoded per the SDM and '
            'compared with watchpoint_list() and the model; plus the exhaustive pure leg; distinct = distinct (program, op prefix)')
    V = Verdict('C14', tier, rule)
    V.minima = {'register_images_decoded': 300, 'refusals': 20, 'multi_thread_images': 50, 'removes': 20} if tier == 'quick' else \
        {'register_images_decoded': 8000, 'refusals': 400, 'multi_thread_images': 3000, 'removes': 500, 'restarts': 15}
    V.assumptions = ['SDM vol.3 17.2.4 layout of DR7', 'hardware data breakpoints are programmed but never fire in this VM: the trigger clause is inconclusive']
    # ---- pure leg
    r = subprocess.run([PUREMON, 'dr7'], stdout=subprocess.PIPE, text=True, timeout=600)
    try:
        pj = json.loads(r.stdout)
        V.count('pure_dr7_evaluations', pj['evaluations'])
        V.count('pure_dr7_prior_states', pj['prior_states'])
        V.case(signature='pure-dr7', n=1)
        for viol in pj['violations']:
            V.violation(f'c14:pure:{viol.get("op")}', 'DR7 encoder differs from the SDM formula', viol)
    except Exception as e:
        V.inconc('pure-leg-failed', r.stdout[-300:] + str(e))
    # ---- trigger probe
    try:
        pr = subprocess.run([REFTRACE, 'hwprobe'], stdout=subprocess.PIPE, text=True, timeout=60)
        fires = json.loads(pr.stdout).get('hw_watch_fires')
        V.count('hardware_delivers_data_breakpoints', 1 if fires else 0)
        if not fires:
            V.inconc('trigger-leg: hardware does not deliver data breakpoints in this VM')
    except Exception as e:
        V.inconc('hwprobe-failed', str(e))
    shapes = [dict(n=2, waves=3, k=6), dict(n=3, waves=2, k=8), dict(n=1, waves=1, k=30), dict(n=4, waves=3, k=4)]
    n = 24 if tier == 'quick' else 120
    specs = [(i, shapes[i % len(shapes)], tier) for i in range(n)]
    common.parallel_map(_prep, sorted({(s[0], tuple(sorted(s[1].items()))) for s in specs}, key=str))
    for res in common.safe_map(run_case, specs, procs=8):
        V.merge(res)
    return V.finish()
