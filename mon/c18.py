"""C18: code is found wherever it is loaded.

A generated cdylib (own hit counter, an inner non-exported function) is used by hosts that link it at start-up or
load it with generated dlopen / dlclose sequences (the library is loaded two or three times); hosts are built PIE
and non-PIE. Breakpoints on library code are requested before start, after the load, while the library is
unloaded, and again after it had been armed during an earlier load. Checked at every stop:
  * the reported stops in library code = the library's own hit counter = the calls the host makes after the
    request (a request before the load must catch the first call; after dlclose + dlopen calls are still caught);
  * the breakpoint address lies inside [map base + symbol, + size) of the function according to /proc/pid/maps
    and nm; the argument read at the stop is the value the host passed; the backtrace goes through the library
    frames into the host's frames in order;
  * `sharedlib info` = the file-backed executable objects of /proc/<pid>/maps.
"""
import os
import re
import subprocess
import sys

sys.path.insert(0, os.path.dirname(os.path.dirname(os.path.abspath(__file__))))
from gen import lib  # noqa: E402
from . import common, corpus  # noqa: E402
from .common import Verdict, rng_for  # noqa: E402
from .session import Session, Crash  # noqa: E402
from .c19 import scalar_of  # noqa: E402

TMO = 60
M64 = (1 << 64) - 1


def nm_sized(path):
    out = subprocess.run(['nm', '-S', '--defined-only', path], stdout=subprocess.PIPE, text=True).stdout
    d = {}
    for l in out.splitlines():
        p = l.split()
        if len(p) == 4:
            d[p[3]] = (int(p[0], 16), int(p[1], 16))
    return d


def maps_of(S):
    txt = S.w.cmd('maps').get('ok') or ''
    objs = {}
    for line in txt.splitlines():
        p = line.split()
        if len(p) >= 6 and p[5].startswith('/'):
            a, b = [int(x, 16) for x in p[0].split('-')]
            off = int(p[2], 16)
            o = objs.setdefault(p[5], {'base': None, 'exec': False})
            if off == 0 and o['base'] is None:
                o['base'] = a
            if 'x' in p[1]:
                o['exec'] = True
    return objs


def run_case(spec):
    idx, mode, timing, kind, pie, tc, tier = spec[:7]
    libbase = spec[7] if len(spec) > 7 else 0      # link address of the library (0 = the default, position independent at zero)
    v = Verdict('C18', tier, '')
    seed = common.seed() * 100 + idx
    ls, lside = lib.gen_lib(seed)
    lextra = ('-C', f'link-arg=-Wl,-Ttext-segment={libbase:#x}') if libbase else ()
    lb = corpus.compile_rust('zqplug', ls, corpus.Config(tc=tc, crate_type='cdylib', extra=lextra), lside)
    ldir = os.path.dirname(lb.path)
    hs, hside = lib.gen_host(seed, mode, lb.path)
    extra = ('-L', ldir, '-C', f'link-arg=-Wl,-rpath,{ldir}') if mode == 'startup' else ()
    hb = corpus.compile_rust(f'host{mode[0]}{idx}', hs, corpus.Config(tc=tc, pie=pie, extra=extra), hside)
    native = corpus.native_run(hb)
    lsyms = nm_sized(lb.path)
    inner_sym = next((n for n in lsyms if re.search(r'\d+zq_inner17h', n)), None)
    k = lside['k']
    # lowest PT_LOAD virtual address of the library: the load bias is the mapping start minus this link address
    ph = subprocess.run(['readelf', '-lW', lb.path], stdout=subprocess.PIPE, text=True).stdout
    loads = [int(l.split()[2], 16) for l in ph.splitlines() if l.strip().startswith('LOAD')]
    link_base = (min(loads) & ~0xfff) if loads else 0
    ctx = {'host': hb.path, 'lib': lb.path, 'mode': mode, 'timing': timing, 'kind': kind, 'pie': pie, 'lib_link_base': hex(link_base)}
    # values passed to the library, in call order
    xs = []
    acc = 7
    for r in hside['rounds']:
        for _ in range(r):
            xs.append(acc)
            acc = ((((acc * k) & M64) ^ k) + 1) & M64 ^ 3
        acc = ((acc * 0x9E3779B97F4A7C15) & M64) ^ ((acc + 1) & M64)
    if len(set(xs)) != len(xs):
        v.inconc('argument-values-not-distinct', str(xs))
        return v.export()
    S = Session(hb, v, mon={'thr': False, 'dr': False, 'text': False, 'regs': False}, timeout=TMO)
    libsrc = os.path.basename(lb.src)

    def request():
        """ask for the library breakpoint; fall back to a deferred request as the console does"""
        if kind == 'fn-inner':
            r = S.cmd('break_fn', name='zq_inner')
            if not r.get('ok'):
                S.cmd('defer_fn', name='zq_inner', mon=False)
                return 'deferred'
        elif kind == 'fn-export':
            r = S.cmd('break_fn', name='zq_plug_calc')
            if not r.get('ok'):
                S.cmd('defer_fn', name='zq_plug_calc', mon=False)
                return 'deferred'
        else:
            r = S.cmd('break_line', file=libsrc, line=lside['inner_line'])
            if not r.get('ok'):
                S.cmd('defer_line', file=libsrc, line=lside['inner_line'], mon=False)
                return 'deferred'
        return 'set'

    try:
        S.launch()
        total = hside['total_calls']
        first_round = hside['rounds'][0]
        expected_from = 0          # index of the first call that must be caught
        how = None
        if timing in ('before-start', 'armed-then-rerequest'):
            how = request()
        if timing in ('after-load',):
            S.cmd('break_fn', name='call_plug')
        if timing in ('while-unloaded', 'armed-then-rerequest'):
            S.cmd('break_fn', name='between')
            if timing == 'while-unloaded':
                expected_from = first_round
        r = S.cmd('start', timeout=TMO)
        if 'ok' not in r:
            v.violation(f'c18:start-fails:{"pie" if pie else "non-pie"}', 'the program cannot be started under the debugger',
                        dict(ctx, err=r.get('err')))
            return v.export()
        lib_stops = 0
        host_stops = 0
        seen_calls = set()        # indices (in call order) of the calls at which a stop in library code was reported
        effective_round = 0 if timing in ('before-start', 'after-load') else 1   # first load that the (latest) request must cover
        requested_late = False
        guard = 0
        while not S.exited and guard < 200:
            guard += 1
            okv = r.get('ok') or {}
            if okv.get('stop') != 'breakpoint':
                if okv.get('stop') != 'exit':
                    v.violation('c18:unexpected-stop', 'unexpected stop or error', dict(ctx, reply=str(r)[:300]))
                break
            place = None
            func = None
            for e in r.get('ev', []):
                if e.get('ev') == 'breakpoint':
                    place = e.get('place') or {}
                    func = (e.get('func') or {}).get('name')
            objs = maps_of(S)
            # ---- sharedlib info vs /proc/pid/maps
            sl = S.cmd('sharedlibs', mon=False).get('ok') or []
            listed = {os.path.realpath(x['path']) for x in sl if x.get('range')}
            mapped = {os.path.realpath(p) for p, o in objs.items() if o['exec'] and p != hb.path}
            v.count('sharedlib_lists_compared')
            listed -= {os.path.realpath(hb.path)}
            if listed != mapped:
                v.violation('c18:sharedlib-list-differs-from-maps:' + ('stale-entry' if listed - mapped else 'missing-entry'),
                            'sharedlib info differs from the file-backed executable objects mapped in the process',
                            dict(ctx, listed=sorted(listed), mapped=sorted(mapped)))
            pc = okv['pc']
            in_lib = lb.path in objs and objs[lb.path]['base'] is not None and func in ('zq_inner', 'zq_plug_calc')
            if in_lib:
                lib_stops += 1
                v.count('stops_in_library_code')
                base = objs[lb.path]['base'] - link_base      # load bias
                sym = inner_sym if kind != 'fn-export' else 'zq_plug_calc'
                lo, size = lsyms[sym]
                if not (base + lo <= pc < base + lo + size):
                    v.violation('c18:library-breakpoint-address-outside-function', 'a stop in library code is not inside the relocated range of the function',
                                dict(ctx, pc=hex(pc), base=hex(base), sym=sym, lo=hex(lo), size=size))
                hits = S.peek_u64(base + lsyms['ZQ_PLUG_HITS'][0])
                a = S.cmd('arg', expr='x', mon=False)
                vals = [scalar_of(e)[1] for e in (a.get('ok') or [])]
                v.count('library_argument_reads')
                # the argument identifies the call (the values the host passes are all different)
                ci = xs.index(vals[0]) if vals and vals[0] in xs else None
                if ci is None or ci in seen_calls:
                    v.violation('c18:argument-read-in-library-wrong' if ci is None else 'c18:library-call-reported-twice',
                                'an argument read at a stop in library code is not a value the host passed (or the same call was reported twice)',
                                dict(ctx, got=vals, expected_one_of=xs[:8], lib_stops=lib_stops))
                else:
                    seen_calls.add(ci)
                    # the library's statics are fresh after every load: its counter counts the calls of the current load
                    acc_calls = 0
                    within = ci + 1
                    for rr in (hside['rounds'] if mode == 'dlopen' else [len(xs)]):
                        if ci < acc_calls + rr:
                            within = ci - acc_calls + 1
                            break
                        acc_calls += rr
                    exp_hits = within - (1 if kind == 'fn-export' else 0)   # at zq_plug_calc's breakpoint the counter is not bumped yet
                    if hits != exp_hits:
                        v.violation('c18:library-hit-counter-differs', 'the library\'s own hit counter disagrees with the call at which the stop was reported',
                                    dict(ctx, hits=hits, expected=exp_hits, call_index=ci))
                bt = [(f.get('func') or '') for f in (S.cmd('backtrace', mon=False).get('ok') or [])]
                chain = (['zq_inner'] if kind != 'fn-export' else []) + ['zq_plug_calc', 'call_plug', 'main']
                pos = 0
                for f in bt:
                    if pos < len(chain) and (f.endswith('::' + chain[pos]) or f == chain[pos]):
                        pos += 1
                v.count('backtraces_through_library')
                if pos != len(chain):
                    v.violation('c18:backtrace-through-library-broken', 'the backtrace from library code does not lead through the library into the host frames',
                                dict(ctx, frames=bt[:10], expected=chain))
            else:
                host_stops += 1
                if func == 'call_plug' and timing == 'after-load' and not requested_late:
                    requested_late = True
                    how = request()
                    for b in (S.w.cmd('bps').get('ok') or []):
                        if ((b.get('place') or {}).get('file') or '').endswith(os.path.basename(hb.src)):
                            S.w.cmd('remove_num', num=b['num'])
                if func == 'between' and not requested_late and timing in ('while-unloaded', 'armed-then-rerequest'):
                    requested_late = True
                    if mode == 'dlopen' and lb.path in {p for p, o in objs.items() if o['exec']}:
                        v.count('library_still_mapped_after_dlclose')
                    how = request()
                    for b in (S.w.cmd('bps').get('ok') or []):
                        if ((b.get('place') or {}).get('file') or '').endswith(os.path.basename(hb.src)):
                            S.w.cmd('remove_num', num=b['num'])
            r = S.cmd('cont', timeout=TMO)
        if S.exited:
            v.count('runs_completed')
            expected_calls = set(range(expected_from, total))
            missing = sorted(expected_calls - seen_calls)
            extra = sorted(seen_calls - expected_calls)
            if missing or extra:
                def round_of(i):
                    acc_ = 0
                    for ri, rr in enumerate(hside['rounds']):
                        if i < acc_ + rr:
                            return ri
                        acc_ += rr
                    return len(hside['rounds'])
                rounds_missing = sorted({round_of(i) for i in missing})
                if extra:
                    cls = 'extra'
                elif mode == 'dlopen' and rounds_missing and min(rounds_missing) > effective_round:
                    cls = 'missing:reload-without-new-request'      # the breakpoint worked for the load it was requested for, not after a later reload
                else:
                    cls = 'missing:first-load-after-request'
                v.violation(f'c18:library-stops-{cls}:{mode}',
                            'the stops in library code do not account for every call made after the breakpoint was requested',
                            dict(ctx, missing_calls=missing, extra_calls=extra, rounds=hside['rounds'], rounds_missing=rounds_missing, request=how,
                                 effective_from_load=effective_round))
            out, err = S.output(expect_stdout=native[0])
            code = (r.get('ok') or {}).get('code')
            if out != native[0] or code != native[2]:
                v.violation('c18:output-differs-from-native', 'program output or exit status differs from the native run', dict(ctx, got=out[-100:].decode('latin1'), code=code))
        v.case(signature=('c18', mode, timing, kind, pie, libbase), sample=dict(ctx, lib_stops=lib_stops, rounds=hside['rounds'], request=how))
    except Crash as c:
        loc = (c.info or {}).get('panic', {}).get('loc') if c.kind == 'panic' else (c.info or {}).get('cmd')
        if c.kind == 'hang':
            v.inconc('watchdog', dict(ctx, info=c.info))
        else:
            v.violation(f'crash:{c.kind}:{loc}', f'debugger {c.kind} with shared library code', dict(ctx, info=c.info), prop='C08')
    finally:
        S.close()
    return v.export()


def main(tier):
    rule = ('case = one debugging run of a host (PIE or non-PIE) that links a generated cdylib at start-up or loads it 2-3 times with dlopen/dlclose, '
            'with a function/line breakpoint on library code requested before start, after the load, while unloaded, or again after an earlier '
            'load; stops vs the library\'s own hit counter, relocated addresses vs /proc/pid/maps + nm, arguments, backtraces, sharedlib list; '
            'distinct = distinct (link mode, timing, breakpoint kind, PIE)')
    V = Verdict('C18', tier, rule)
    V.minima = {'runs_completed': 6, 'stops_in_library_code': 20, 'sharedlib_lists_compared': 20} if tier == 'quick' else \
        {'runs_completed': 150, 'stops_in_library_code': 600, 'sharedlib_lists_compared': 600}
    V.assumptions = ['/proc/<pid>/maps and nm are the truth for load addresses; the library\'s SeqCst counter is the truth for calls']
    specs = []
    i = 0
    reps = 1 if tier == 'quick' else 8
    for rep in range(reps):
        for mode in ('startup', 'dlopen'):
            for timing in ('before-start', 'after-load', 'while-unloaded', 'armed-then-rerequest'):
                if mode == 'startup' and timing in ('while-unloaded', 'armed-then-rerequest'):
                    continue
                for kind in ('fn-inner', 'line', 'fn-export'):
                    if tier == 'quick' and (i % 2) and timing == 'after-load':
                        i += 1
                        continue
                    for pie in ((True, False) if kind == 'fn-inner' else (True,)):
                        specs.append((rep * 10 + (i % 3), mode, timing, kind, pie, '1.89' if i % 2 == 0 else '1.95', tier, 0))
                    if kind == 'fn-inner' and timing in ('before-start', 'after-load'):
                        # the same with a library that is position independent but linked at a non-zero address
                        specs.append((rep * 10 + (i % 3), mode, timing, kind, True, '1.89' if i % 2 == 0 else '1.95', tier, 0x4000000))
                    i += 1
    # compile serially first (library and hosts share build directories)
    for s in specs:
        try:
            seed = common.seed() * 100 + s[0]
            ls, lside = lib.gen_lib(seed)
            lextra = ('-C', f'link-arg=-Wl,-Ttext-segment={s[7]:#x}') if s[7] else ()
            lb = corpus.compile_rust('zqplug', ls, corpus.Config(tc=s[5], crate_type='cdylib', extra=lextra), lside)
            ldir = os.path.dirname(lb.path)
            hs, hside = lib.gen_host(seed, s[1], lb.path)
            extra = ('-L', ldir, '-C', f'link-arg=-Wl,-rpath,{ldir}') if s[1] == 'startup' else ()
            corpus.compile_rust(f'host{s[1][0]}{s[0]}', hs, corpus.Config(tc=s[5], pie=s[4], extra=extra), hside)
        except Exception as e:
            V.inconc('compile-failed', str(e)[-300:])
    for res in common.safe_map(run_case, specs, procs=8):
        V.merge(res)
    return V.finish()
