#!/bin/bash
# confirm_seed.sh <ID>: in scratch worktree /tmp/wt/<ID> run SEED/run_demo.sh with the change and without it.
ID=$1
WT=/tmp/wt/$ID
cd $WT || exit 2
git diff -- src > /tmp/agent/$ID/confirm.diff
if ! cmp -s /tmp/agent/$ID/confirm.diff SEED/patch.diff; then echo "NOTE: worktree diff differs from SEED/patch.diff"; fi
echo "=== WITH change"; timeout 900 bash SEED/run_demo.sh > /tmp/agent/$ID/demo_with.log 2>&1; echo "rc_with=$?"
git apply -R SEED/patch.diff || { echo "cannot revert"; exit 2; }
echo "=== WITHOUT change"; timeout 900 bash SEED/run_demo.sh > /tmp/agent/$ID/demo_without.log 2>&1; echo "rc_without=$?"
git apply SEED/patch.diff
