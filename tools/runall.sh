#!/bin/bash
# runall.sh [tier]: run every registered check once on the current tree, print one line per check.
TIER=${1:-quick}
cd /verif
python3 -c "from mon import common; common.build_harness(); common.build_bs()" || exit 2
for id in C01 C02 C03 C04 C05 C06 C07 C08 C09 C10 C11 C12 C13 C14 C15 C16 C17 C18 C19; do
  t0=$(date +%s)
  ./check $id --tier $TIER --no-build > /tmp/agent/runall_$id.log 2>&1; rc=$?
  t1=$(date +%s)
  echo "$id rc=$rc $((t1-t0))s known=$(grep -c '^KNOWN-FINDING' /tmp/agent/runall_$id.log) viol=$(grep -c '^VIOLATION' /tmp/agent/runall_$id.log) $(grep -E '^INCONCLUSIVE' /tmp/agent/runall_$id.log | cut -c1-80)"
done
