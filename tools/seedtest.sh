#!/bin/bash
# seedtest.sh <seed dir name> <check id> [tier]: apply /verif/seeded/<name>/patch.diff to /repo, run the check, undo.
NAME=$1; CHECK=$2; TIER=${3:-quick}
cd /verif
git -C /repo diff --quiet || { echo "/repo has uncommitted changes, refusing"; exit 2; }
git -C /repo apply /verif/seeded/$NAME/patch.diff || { echo "patch does not apply"; exit 2; }
./check $CHECK --tier $TIER > /tmp/agent/seedtest_${NAME}_${CHECK}.log 2>&1; rc=$?
git -C /repo checkout -- . 
echo "seed=$NAME check=$CHECK tier=$TIER rc=$rc"; grep -E "^VIOLATION|KNOWN-FINDING|INCONCLUSIVE|BUILD-FAILED|signature:" /tmp/agent/seedtest_${NAME}_${CHECK}.log | cut -c1-220 | head -20
# restore evidence produced on the patched tree: it must not be committed
git -C /verif checkout -- evidence 2>/dev/null
# rebuild the harness from the clean tree so that later --no-build runs do not use the patched worker
(cd /verif && python3 -c "from mon import common; common.build_harness(verbose=False); common.build_bs(verbose=False)")
exit $rc
