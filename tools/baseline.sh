#!/bin/bash
# Runs the pinned test command of /root/.vp/BASELINE.json on /repo (feature guard off) and compares with the stable set
# of /w/out/run1.json. Tests that fail are re-run alone (DAP tests fail with "Connection refused" under load).
cd /repo || exit 2
export CARGO_NET_OFFLINE=true
T=${CARGO_TARGET_DIR:-/repo/target}
cargo nextest run --workspace --no-fail-fast --tool-config-file pb:/w/lib/nextest.toml --profile pb --test-threads ${THREADS:-8} --offline > /tmp/agent/baseline.out 2>&1
J=$(ls -t $T/nextest/pb/junit.xml 2>/dev/null | head -1)
python3 - "$J" <<'PYEOF'
import json, sys, subprocess, re
import xml.etree.ElementTree as ET
stable = set(json.load(open('/w/out/run1.json'))['passed'])
for k in (2, 3):
    stable &= set(json.load(open(f'/w/out/run{k}.json'))['passed'])
t = ET.parse(sys.argv[1])
passed, failed = set(), set()
for ts in t.getroot().iter('testsuite'):
    for tc in ts.iter('testcase'):
        name = tc.get('classname', '') + '::' + tc.get('name', '')
        (failed if (tc.find('failure') is not None or tc.find('error') is not None) else passed).add(name)
def norm(s):
    return s
sp = {s for s in stable}
names = passed | failed
# map by suffix (the stored names may have another prefix form)
def find(s, pool):
    return any(p == s or p.endswith(s) or s.endswith(p) for p in pool)
missing = [s for s in sorted(sp) if not find(s, passed)]
print(f'stable={len(sp)} passed_now={len(sp) - len(missing)} not_passed={len(missing)}')
still = []
for s in missing:
    short = s.split('::')[-1]
    ok = False
    for _ in range(3):
        r = subprocess.run(['cargo', 'nextest', 'run', '--workspace', '--offline', '--test-threads', '1', '-E', f'test(/{re.escape(short)}$/)'],
                           stdout=subprocess.PIPE, stderr=subprocess.STDOUT, text=True)
        if r.returncode == 0:
            ok = True
            break
    print(('  retry-ok   ' if ok else '  STILL-FAILS ') + s)
    if not ok:
        still.append(s)
print('BASELINE-OK' if not still else f'BASELINE-FAILS {len(still)}')
sys.exit(1 if still else 0)
PYEOF
